#!/bin/bash
# Must-fail corpus: every mutant must make at least one obligation of the named functions fail.
# usage: selftest/run.sh [name-filter]
cd /verif || exit 2
export GOFLAGS=-mod=vendor GOPROXY=off GOSUMDB=off GOTOOLCHAIN=local
filter="$1"
tmp=$(mktemp -d /tmp/gowp-selftest.XXXXXX)
trap 'rm -rf "$tmp"' EXIT
fail=0; n=0
while IFS= read -r line; do
  name="${line%%@@*}"; rest="${line#*@@}"; file="${rest%%@@*}"; rest="${rest#*@@}"; funcs="${rest##*@@}"; expr="${rest%@@*}"
  case "$name" in \#*|"") continue;; esac
  [ -n "$filter" ] && [[ "$name" != *$filter* ]] && continue
  [ -z "$funcs" ] && continue
  rm -rf "$tmp/repo"; mkdir -p "$tmp/repo"
  rsync -a --exclude .git /repo/ "$tmp/repo/"
  before=$(md5sum "$tmp/repo/$file" | cut -d' ' -f1)
  sed -i "$expr" "$tmp/repo/$file"
  after=$(md5sum "$tmp/repo/$file" | cut -d' ' -f1)
  if [ "$before" = "$after" ]; then echo "MUTANT-NOT-APPLIED $name"; fail=1; continue; fi
  if ! (cd "$tmp/repo" && GOFLAGS=-mod=mod go build ./... 2>/dev/null); then echo "MUTANT-DOES-NOT-COMPILE $name"; fail=1; continue; fi
  n=$((n+1))
  IFS=';' read -ra fl <<< "$funcs"
  out=$(/verif/bin/gowp func -repo "$tmp/repo" -t 8000 "${fl[@]}" 2>&1)
  if echo "$out" | grep -q "FAIL\|OUT-OF-SUBSET"; then
    echo "killed   $name ($(echo "$out" | grep -c '^  FAIL') failed obligations)"
  else
    echo "SURVIVED $name"; fail=1
  fi
done < /verif/selftest/mutants.txt
echo "selftest: $n mutants run"
exit $fail
