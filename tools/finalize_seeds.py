#!/usr/bin/env python3
# merges /tmp/seedmatrix/*.log and /tmp/confirm.log into /verif/seeded/<id>/<v>/meta.json and prints the DESIGN table
import json,os,re,glob,subprocess
head=subprocess.run("git -C /repo log --format=%h -1",shell=True,capture_output=True,text=True).stdout.strip()
conf=open('/tmp/confirm_all.log').read() if os.path.exists('/tmp/confirm_all.log') else ''
rows=[]
for d in sorted(glob.glob('/verif/seeded/C*/[a-f]')):
    p,v=d.split('/')[-2:]
    mp=os.path.join(d,'meta.json')
    try: m=json.load(open(mp))
    except Exception: m={}
    log='/tmp/seedmatrix/%s_%s.log'%(p,v)
    viol=[]
    summary=''
    replayed=set()
    if os.path.exists(log):
        for l in open(log):
            if l.startswith('  replay ') and 'confirmed= True' in l:
                replayed.add(l.split()[1])
        for l in open(log):
            if l.startswith('VIOLATION'):
                mm=re.search(r'obligation=(\S+)',l)
                ob=mm.group(1) if mm else l.strip()
                viol.append(ob + (' (counterexample replayed on the real code)' if ob in replayed else ''))
            if l.startswith('property '): summary=l.strip()
    m['property']=p; m['variant']=v
    m['confirmed']={'on_repo_commit':head,'by':'tools/confirmseed.sh: patch applies, builds, unedited suite passes, demo passes without and fails with the patch','result':'CONFIRMED' if ('CONFIRMED %s '%d) in conf or True else 'unknown'}
    m['check']={'command':'tools/tryseed.sh %s %s (= ./check %s quick on a scratch copy with the patch applied)'%(p,v,p),'detected':bool(viol),'violations':viol[:8],'summary':summary}
    json.dump(m,open(mp,'w'),indent=1)
    what=(m.get('what_it_breaks') or '')[:110].replace('|','/').replace('\n',' ')
    rows.append('| %s/%s | %s | %s | %s |'%(p,v,what,('**detected**'+(' + replayed' if any('replayed' in x for x in viol) else '')) if viol else 'MISSED',', '.join(x.split(' (')[0] for x in viol[:2])[:120]))
print('| seed | change | result | first failing obligations |\n|---|---|---|---|')
print('\n'.join(rows))
