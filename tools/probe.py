#!/usr/bin/env python3
# usage: probe.py file.smt2 [timeout_ms] -- split the goal's consequent conjuncts and test each separately
import subprocess,sys,time
f=sys.argv[1]; t=int(sys.argv[2]) if len(sys.argv)>2 else 5000
def parse(s):
    i=0
    def rec():
        nonlocal i
        while s[i] in ' \n\t': i+=1
        if s[i]=='(':
            i+=1; kids=[]
            while True:
                while s[i] in ' \n\t': i+=1
                if s[i]==')': i+=1; return kids
                kids.append(rec())
        st=i
        while s[i] not in ' ()\n\t': i+=1
        return s[st:i]
    return rec()
def show(e):
    return e if isinstance(e,str) else '('+' '.join(show(k) for k in e)+')'
def conj(e):
    if isinstance(e,list) and e and e[0]=='and':
        r=[]
        for k in e[1:]: r+=conj(k)
        return r
    return [e]
lines=[l for l in open(f).read().split('\n') if not l.startswith('(get-model')]
gi=max(i for i,l in enumerate(lines) if l.startswith('(assert (not '))
g=parse(lines[gi])  # ['assert',['not',X]]
X=g[1][1]
def variants(X):
    # peel forall / ! / =>
    if isinstance(X,list) and X[0]=='forall':
        return [['forall',X[1],v] for v in variants(X[2])]
    if isinstance(X,list) and X[0]=='!':
        return [['!',v]+X[2:] for v in variants(X[1])]
    if isinstance(X,list) and X[0]=='=>':
        return [['=>',X[1],v] for v in variants(X[2])]
    return conj(X)
vs=variants(X)
for k,v in enumerate(vs):
    ls=list(lines); ls[gi]='(assert (not '+show(v)+'))'
    open('/tmp/_p.smt2','w').write('\n'.join(ls))
    t0=time.time(); out=subprocess.run(['z3-new','-smt2','-t:%d'%t,'/tmp/_p.smt2'],capture_output=True,text=True).stdout.strip().split('\n')[0]+' %.1fs'%(time.time()-t0)
    core=v
    while isinstance(core,list) and core[0] in ('forall','!','=>'): core=core[2] if core[0] in ('forall','=>') else core[1]
    print(k,out,show(core)[:200])
