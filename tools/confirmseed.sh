#!/bin/bash
# usage: tools/confirmseed.sh <seed-dir>   (e.g. /verif/seeded/C01/a or /tmp/seed/C05/a)
# Confirms a seeded change on a scratch copy of the CURRENT /repo: patch applies, builds, the unedited suite passes,
# the demonstration passes without the patch and fails with it. Prints one line; exit 0 iff confirmed.
d=$1
export GOFLAGS=-mod=mod GOPROXY=off GOSUMDB=off GOTOOLCHAIN=local
tmp=$(mktemp -d /tmp/seedconf.XXXXXX); trap 'rm -rf "$tmp"' EXIT
rsync -a --exclude .git /repo/ "$tmp/repo/"
patch=$d/patch.diff; [ -f $d/patch.rebased.diff ] && patch=$d/patch.rebased.diff
demo=$(ls $d/demo_*_test.go 2>/dev/null | head -1)
[ -z "$demo" ] && { echo "NO-DEMO $d"; exit 2; }
ddir=$(python3 -c "import json;print(json.load(open('$d/meta.json')).get('demo_dir','.'))" 2>/dev/null); [ -z "$ddir" ] && ddir=.
tname=$(grep -o "func Test[A-Za-z0-9_]*" $demo | head -1 | sed 's/func //')
cp $demo "$tmp/repo/$ddir/"
base=$(cd "$tmp/repo" && go test -vet=off -count=1 -timeout 120s -run "^$tname\$" ./$ddir 2>&1 | tail -1)
case "$base" in ok*) ;; *) echo "DEMO-FAILS-ON-PRISTINE $d: $base"; exit 3;; esac
if ! (cd "$tmp/repo" && patch -p1 --fuzz=3 -s < $patch); then echo "PATCH-FAILED $d"; exit 4; fi
if ! (cd "$tmp/repo" && go build ./... 2>/dev/null); then echo "BUILD-FAILED $d"; exit 5; fi
with=$(cd "$tmp/repo" && go test -vet=off -count=1 -timeout 120s -run "^$tname\$" ./$ddir 2>&1 | tail -1)
case "$with" in ok*) echo "DEMO-PASSES-WITH-PATCH $d"; exit 6;; esac
rm "$tmp/repo/$ddir/$(basename $demo)"
suite=$(cd "$tmp/repo" && go test -vet=off -count=1 -timeout 600s ./... 2>&1 | grep -v "^ok\|no test files" | head -3)
[ -n "$suite" ] && { echo "SUITE-FAILS-WITH-PATCH $d: $suite"; exit 7; }
echo "CONFIRMED $d ($tname)"
