#!/bin/bash
# list non-cover obligations that need more than ${1:-3000} ms in isolation (fragile under load)
T=${1:-3000}
/verif/bin/gowp list -contracted | xargs -d '\n' -n 8 -P 2 /verif/bin/gowp func -t 20000 -v 2>/dev/null | awk -v T=$T '{for(i=1;i<=NF;i++) if ($i ~ /^[0-9]+ms$/) {t=$i; sub("ms","",t); if (t+0>T && $2 !~ /cover/) print t, $2, $3}}' | sort -rn | head -40
