#!/usr/bin/env python3
# Regenerates MANIFEST.json from tools/claims.json (claimed checks) and properties.jsonl.
import json
props=[json.loads(l) for l in open('/verif/properties.jsonl')]
claims=json.load(open('/verif/tools/claims.json'))
checks=[]
for p in props:
    c=claims['claimed'].get(p['id'])
    if not c: continue
    checks.append({
      "property_id":p['id'],
      "quick_cmd":"./check %s quick"%p['id'],
      "thorough_cmd":"./check %s thorough"%p['id'],
      "evidence_file":"/verif/evidence/%s.json"%p['id'],
      "replay_cmd_template":"cat {path}",
      "engine":"gowp",
      "level_claimed":{"category":"proof","text":c['text'],"design_ref":c.get('design_ref','DESIGN.md §6')},
      "level_note":c['note'],
      "technique":"contract-based deductive verification: weakest-precondition style VCs generated from go/ssa of the real code against //@ contracts, discharged by z3-new/cvc5/z3"})
na=[{"property_id":p['id'],"reason":claims['not_applicable'].get(p['id'],"contracts for this property are not yet written/discharged in this build stage")} for p in props if p['id'] not in claims['claimed']]
m={"version":1,
 "setup_cmd":"cd /verif/gowp && GOFLAGS=-mod=vendor GOPROXY=off GOSUMDB=off GOTOOLCHAIN=local go build -o /verif/bin/gowp .",
 "hooks":{"guard":"verif","enable":"contracts are comment-only files behind //go:build verif (/repo/contracts_verif.go, /repo/cmd/contracts_verif.go); gowp reads them as text, the tag never needs to be switched on for a build","baseline_off_cmd":"cd /repo && GOFLAGS=-mod=mod GOPROXY=off GOSUMDB=off go test -vet=off -count=1 ./...","source_commits":claims.get('hook_commits',[]),"add_only":True},
 "engines":[{"name":"gowp","path":"/verif/gowp","serves_properties":sorted(claims['claimed'].keys()),"kind_free_text":"self-written verification-condition generator over go/ssa (path-based symbolic execution, loop cutting with invariants, modular contracts, lemmas, frame checks) discharging obligations with z3-new 5.1.0 / cvc5 1.0.3 / z3 4.8.12"}],
 "checks":checks,
 "notes":"Contract-based deductive verification of the real code. See DESIGN.md; known_findings.txt lists fixed defects; selftest/run.sh is the must-fail mutant corpus.",
 "not_applicable":na}
json.dump(m,open('/verif/MANIFEST.json','w'),indent=1)
print(len(checks),'checks',len(na),'not applicable')
