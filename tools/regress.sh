#!/bin/bash
# run every contracted function through gowp; print failures and a summary
# usage: regress.sh [timeout_ms] [filter]
T=${1:-20000}
F=${2:-.}
/verif/bin/gowp list -contracted | grep -e "$F" | xargs -d '\n' -n 6 -P 3 /verif/bin/gowp func -t $T 2>/dev/null | grep -v "^  ok" 
