#!/bin/bash
# run every claimed quick check once; summary on stdout
cd /verif
for p in $(python3 -c "import json;print(' '.join(c['property_id'] for c in json.load(open('MANIFEST.json'))['checks']))"); do
  ./check $p ${1:-quick} > /tmp/chk_$p.log 2>&1; echo "$p exit=$? $(tail -1 /tmp/chk_$p.log)"
done
