#!/bin/bash
# usage: tools/trybenign.sh <dir with patch.diff>  -- apply a behaviour-preserving refactoring to a scratch copy and re-verify
# the contracted functions the patch touches (or everything, when it touches an uncontracted function that callers inline)
d=$1
tmp=$(mktemp -d /tmp/benign.XXXXXX); trap 'rm -rf "$tmp"' EXIT
rsync -a --exclude .git /repo/ "$tmp/repo/"
if ! (cd "$tmp/repo" && patch -p1 --fuzz=3 -s < $d/patch.diff); then echo "PATCH-FAILED $d"; exit 3; fi
if ! (cd "$tmp/repo" && GOFLAGS=-mod=mod GOPROXY=off go build ./... ); then echo "BUILD-FAILED $d"; exit 3; fi
names=$(python3 -c "
import json,re
m=json.load(open('$d/meta.json'))
for f in m.get('functions_touched',[]):
    f=re.sub(r'\\(.*\\)\$','',f.strip())          # drop a trailing parameter list
    f=f.split('/')[-1]
    f=re.sub(r'^[a-z_]+\\.go[: ]+','',f)
    print(f.split('.')[-1].strip('()* '))
" | sort -u)
keys=""; all=0
for n in $names; do
  ks=$(/verif/bin/gowp list -contracted | grep -E "[:.)]$n\$")
  if [ -n "$ks" ]; then keys="$keys $ks"; else all=1; fi
done
[ -z "$names" ] && all=1
if [ $all = 1 ]; then
  out=$(/verif/bin/gowp list -contracted | xargs -d '\n' -n 8 -P 3 /verif/bin/gowp func -repo "$tmp/repo" -t 30000 2>/dev/null | grep "FAIL\|OUT-OF-SUBSET" | grep -v "dep/filebuffer")
else
  out=$(/verif/bin/gowp func -repo "$tmp/repo" -t 30000 $keys 2>/dev/null | grep "FAIL\|OUT-OF-SUBSET")
fi
if [ -n "$out" ]; then echo "ALARM $d [$names] :: $(echo "$out" | head -2 | cut -c1-200)"; else echo "quiet $d [$names] (all=$all)"; fi
