#!/bin/bash
# usage: tools/tryseed.sh <prop> <variant> [extra props...]  -- apply a seeded change to a scratch copy and run the checks
prop=$1; var=$2; shift 2
tmp=$(mktemp -d /tmp/seedrun.XXXXXX)
trap 'rm -rf "$tmp"' EXIT
rsync -a --exclude .git /repo/ "$tmp/repo/"
mkdir -p "$tmp/verif"; cp -r /verif/trusted /verif/known_findings.txt /verif/expected_unreachable.txt "$tmp/verif/" 2>/dev/null
cp /verif/expected_min.json "$tmp/verif/" 2>/dev/null
if ! (cd "$tmp/repo" && patch -p1 --fuzz=3 -s < $( [ -f /verif/seeded/$prop/$var/patch.rebased.diff ] && echo /verif/seeded/$prop/$var/patch.rebased.diff || echo /verif/seeded/$prop/$var/patch.diff )); then echo "PATCH-FAILED $prop/$var"; exit 3; fi
if ! (cd "$tmp/repo" && GOFLAGS=-mod=mod GOPROXY=off go build ./... ); then echo "BUILD-FAILED $prop/$var"; exit 3; fi
rc=0
for p in $prop "$@"; do
  /verif/bin/gowp check -repo "$tmp/repo" -verif "$tmp/verif" -prop $p -tier quick 2>&1 | grep "VIOLATION\|KNOWN\|^property" | sed "s|$tmp|TMP|g" | cut -c1-400
done
for f in "$tmp"/verif/replay/*/*.json; do [ -f "$f" ] && python3 -c "
import json,sys
d=json.load(open('$f'))
r=d.get('replay',{})
print('  replay', d.get('obligation'), 'confirmed=',d.get('confirmed'), 'status=',r.get('status'), 'inputs=',json.dumps(r.get('inputs'))[:200] if r.get('inputs') else r.get('reason','')[:120], 'observed=',r.get('observed_outputs'))
"; done
