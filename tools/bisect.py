#!/usr/bin/env python3
# usage: bisect.py file.smt2 [solver] [timeout_ms]  -- drop each quantified assertion in turn
import subprocess,sys,time
f=sys.argv[1]; solver=sys.argv[2] if len(sys.argv)>2 else 'z3-new'; t=int(sys.argv[3]) if len(sys.argv)>3 else 5000
lines=open(f).read().split('\n')
def run(ls):
    open('/tmp/_bis.smt2','w').write('\n'.join(l for l in ls if not l.startswith('(get-model')))
    cmd={'z3-new':['z3-new','-smt2','-t:%d'%t,'/tmp/_bis.smt2'],'cvc5':['cvc5','--tlimit=%d'%t,'/tmp/_bis.smt2'],'z3':['z3','-smt2','-t:%d'%t,'/tmp/_bis.smt2']}[solver]
    t0=time.time()
    out=subprocess.run(cmd,capture_output=True,text=True).stdout.strip().split('\n')[0]
    return out,round(time.time()-t0,2)
print('full',run(lines))
idx=[i for i,l in enumerate(lines) if l.startswith('(assert') and 'forall' in l and not l.startswith('(assert (not (forall')]
for i in idx:
    print(i+1, run([l for j,l in enumerate(lines) if j!=i]), lines[i][:110])
