#!/bin/bash
# run the property check against every kept seeded change (scratch copies); results in /tmp/seedmatrix/
mkdir -p /tmp/seedmatrix
ls -d /verif/seeded/C*/[ab] | sed 's|/verif/seeded/||' | xargs -P ${1:-2} -I{} bash -c 'p=$(dirname {}); v=$(basename {}); /verif/tools/tryseed.sh $p $v > /tmp/seedmatrix/${p}_$v.log 2>&1'
for f in /tmp/seedmatrix/*.log; do n=$(basename $f .log); if grep -q "^VIOLATION" $f; then echo "$n DETECTED $(grep -c '^VIOLATION' $f) $(grep '^VIOLATION' $f | head -1 | sed 's/.*obligation=//' | cut -c1-90)"; else echo "$n MISSED $(tail -1 $f | cut -c1-100)"; fi; done
