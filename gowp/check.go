package main

// Property check driver: obligations of every function serving a property,
// vacuity guards, known findings, VIOLATION lines, evidence.

import (
	"os/exec"
	"encoding/json"
	"flag"
	"fmt"
	"os"
	"path/filepath"
	"sort"
	"strconv"
	"strings"
	"time"
)

type knownFinding struct {
	Prop, Obligation, What string
}

func loadKnown(path string) (findings []knownFinding, fixed []string) {
	data, err := os.ReadFile(path)
	if err != nil {
		return
	}
	for _, ln := range strings.Split(string(data), "\n") {
		ln = strings.TrimSpace(ln)
		if strings.HasPrefix(ln, "fixed:") {
			fixed = append(fixed, ln)
			continue
		}
		if !strings.HasPrefix(ln, "finding:") {
			continue
		}
		kf := knownFinding{}
		rest := strings.TrimSpace(ln[len("finding:"):])
		if i := strings.Index(rest, " what="); i >= 0 {
			kf.What = rest[i+6:]
			rest = rest[:i]
		}
		for _, f := range strings.Fields(rest) {
			if strings.HasPrefix(f, "property=") {
				kf.Prop = f[9:]
			}
			if strings.HasPrefix(f, "obligation=") {
				kf.Obligation = f[11:]
			}
		}
		findings = append(findings, kf)
	}
	return
}

func hasProp(ps []string, p string) bool {
	for _, q := range ps {
		if q == p {
			return true
		}
	}
	return false
}

type oblReport struct {
	Name    string `json:"name"`
	Kind    string `json:"kind"`
	Pos     string `json:"pos,omitempty"`
	Queries int    `json:"queries"`
	Result  string `json:"result"`
	Solver  string `json:"solver"`
	Ms      int64  `json:"ms"`
}

func cmdCheck(args []string) int {
	fs := flag.NewFlagSet("check", flag.ExitOnError)
	repo := fs.String("repo", "/repo", "")
	verif := fs.String("verif", "/verif", "")
	prop := fs.String("prop", "", "property id")
	tier := fs.String("tier", "quick", "")
	fs.Parse(args)
	if t := os.Getenv("VERIF_TIER"); t != "" && *tier == "" {
		*tier = t
	}
	seed := 0
	if s := os.Getenv("VERIF_SEED"); s != "" {
		seed, _ = strconv.Atoi(s)
	}
	t0 := time.Now()
	evPath := filepath.Join(*verif, "evidence", *prop+".json")
	os.MkdirAll(filepath.Dir(evPath), 0755)
	os.Remove(evPath)
	P, err := loadAll(*repo, *verif)
	if err != nil {
		// the tree does not load (does not compile / contract file unparsable): engine cannot decide
		fmt.Fprintf(os.Stderr, "gowp: cannot load: %v\n", err)
		return 2
	}
	timeout := 30000
	all := false
	if *tier == "thorough" {
		timeout = 60000
		all = true
	}
	// functions serving the property
	var keys []string
	for k, c := range P.specs.Funcs {
		if strings.HasPrefix(k, "ext:") {
			continue
		}
		if hasProp(c.Props, *prop) || clauseHasProp(c, *prop) {
			keys = append(keys, k)
		}
	}
	sort.Strings(keys)
	var obls []*Obligation
	var bindFails []string
	funcsUnder := []string{}
	inlinedSet := map[string]bool{}
	usedExt := map[string]bool{}
	notes := map[string]bool{}
	perFunc := map[string]int{}
	// the property's obligations are those of the functions tagged with it plus, transitively, of
	// every function whose contract their proofs rely on (modular proofs: a callee is only as
	// good as its own verified contract)
	seenKey := map[string]bool{}
	usedLemmaSet := map[string]bool{}
	work := append([]string(nil), keys...)
	for len(work) > 0 {
		k := work[0]
		work = work[1:]
		if seenKey[k] {
			continue
		}
		seenKey[k] = true
		r := P.verifyFunc(k, false)
		if r.Trusted {
			usedExt["trusted contract (body not verified): "+displayKey(k)] = true
			continue
		}
		if r.OutOfSub != "" {
			bindFails = append(bindFails, fmt.Sprintf("%s: %s", displayKey(k), r.OutOfSub))
			continue
		}
		funcsUnder = append(funcsUnder, displayKey(k))
		tagged := false
		if c := P.specs.Funcs[k]; c != nil && (hasProp(c.Props, *prop) || clauseHasProp(c, *prop)) {
			tagged = true
		}
		for _, o := range r.Obls {
			// functions pulled in as dependencies contribute all their obligations
			if !tagged || hasProp(o.Props, *prop) {
				obls = append(obls, o)
				perFunc[displayKey(k)]++
			}
		}
		for _, s := range r.Inlined {
			inlinedSet[s] = true
		}
		for _, s := range r.UsedExt {
			usedExt[s] = true
		}
		for _, s := range r.Notes {
			notes[s] = true
		}
		for _, dep := range r.UsedContracts {
			if !seenKey[dep] {
				work = append(work, dep)
			}
		}
		for _, l := range r.UsedLemmas {
			usedLemmaSet[l] = true
		}
	}
	// lemmas serving the property
	lem := P.lemmaObligationsFor(*prop, usedLemmaSet)
	obls = append(obls, lem...)
	workers := 6
	if all && len(obls) > 1500 {
		// cross-solver agreement (every solver run to the end on every obligation) only for the smaller
		// properties; the large ones use first-proof-wins with the thorough budget
		all = false
	}
	solveAll(P, obls, timeout, all, workers)
	// inconclusive answers (solver timeouts under load) are retried one at a time with a longer budget;
	// an unsat answer is a proof whenever it arrives, a sat answer is never overridden
	var retry []*Obligation
	for _, o := range obls {
		if !o.Cover && o.Result != nil && (o.Result.Verdict == "unknown" || o.Result.Verdict == "error") {
			retry = append(retry, o)
		}
	}
	if len(retry) > 0 && len(retry) <= 10 {
		retrySeeds = true
		solveAll(P, retry, 2*timeout, all, 1)
		retrySeeds = false
	}

	known, fixedList := loadKnown(filepath.Join(*verif, "known_findings.txt"))
	// group by obligation name
	type group struct {
		name   string
		kind   string
		pos    string
		obls   []*Obligation
		failed []*Obligation
	}
	groups := map[string]*group{}
	var order []string
	solverMs := int64(0)
	bySolver := map[string]int{}
	coverFeasible := map[string]bool{}
	coverSeen := map[string]*Obligation{}
	for _, o := range obls {
		g := groups[o.Name]
		if g == nil {
			g = &group{name: o.Name, kind: o.Kind, pos: o.Pos}
			groups[o.Name] = g
			order = append(order, o.Name)
		}
		g.obls = append(g.obls, o)
		ok := o.Result.Verdict == "unsat"
		if o.Cover {
			ok = o.Result.Verdict != "unsat"
			if strings.Contains(o.Name, ".cover.return@") {
				// judged per return position below
				if ok {
					coverFeasible[o.Name] = true
				}
				coverSeen[o.Name] = o
				continue
			}
		}
		if !ok {
			g.failed = append(g.failed, o)
		} else {
			bySolver[o.Result.Solver]++
		}
		solverMs += o.Result.Ms
	}
	// dead returns: compare per function with the committed baseline count of returns that are
	// unreachable by design (defensive error returns); more dead returns than that is a vacuity alarm
	expectedDead := map[string]int{}
	if data, err := os.ReadFile(filepath.Join(*verif, "expected_unreachable.txt")); err == nil {
		for _, ln := range strings.Split(string(data), "\n") {
			f := strings.Fields(ln)
			if len(f) == 2 && !strings.HasPrefix(ln, "#") {
				n, _ := strconv.Atoi(f[1])
				expectedDead[f[0]] = n
			}
		}
	}
	var deadReturns, unexpectedDead []string
	deadPerFunc := map[string][]string{}
	for name, o := range coverSeen {
		if !coverFeasible[name] {
			deadReturns = append(deadReturns, name)
			deadPerFunc[o.Func] = append(deadPerFunc[o.Func], name)
		}
	}
	for fn, names := range deadPerFunc {
		if len(names) > expectedDead[strings.ReplaceAll(fn, " ", "")] {
			sort.Strings(names)
			unexpectedDead = append(unexpectedDead, fn+": "+strings.Join(names, ","))
		}
	}
	sort.Strings(deadReturns)
	sort.Strings(unexpectedDead)
	violations := 0
	knownHit := 0
	total, discharged := 0, 0
	var reports []oblReport
	var samples []interface{}
	exit := 0
	replayDir := filepath.Join(*verif, "replay", *prop)
	for _, name := range order {
		g := groups[name]
		rep := oblReport{Name: name, Kind: g.kind, Pos: g.pos, Queries: len(g.obls)}
		var ms int64
		solversUsed := map[string]bool{}
		for _, o := range g.obls {
			ms += o.Result.Ms
			solversUsed[o.Result.Solver] = true
		}
		rep.Ms = ms
		var su []string
		for s := range solversUsed {
			su = append(su, s)
		}
		sort.Strings(su)
		rep.Solver = strings.Join(su, "+")
		if len(g.failed) == 0 {
			rep.Result = "discharged"
			total += len(g.obls)
			discharged += len(g.obls)
			reports = append(reports, rep)
			if len(samples) < 4 && g.kind == "post" {
				samples = append(samples, map[string]interface{}{"obligation": name, "goal": g.obls[0].Goal, "pos": g.pos, "solver": g.obls[0].Result.Solver, "ms": g.obls[0].Result.Ms})
			}
			continue
		}
		// failed: known finding?
		isKnown := false
		for _, kf := range known {
			if kf.Prop == *prop && kf.Obligation == name {
				fmt.Printf("KNOWN-FINDING: property=%s obligation=%s %s\n", *prop, name, kf.What)
				isKnown = true
				knownHit++
			}
		}
		if isKnown {
			rep.Result = "known-finding"
			reports = append(reports, rep)
			continue
		}
		total += len(g.obls)
		discharged += len(g.obls) - len(g.failed)
		rep.Result = "FAILED:" + g.failed[0].Result.Verdict
		reports = append(reports, rep)
		violations++
		exit = 1
		os.MkdirAll(replayDir, 0755)
		rp := filepath.Join(replayDir, sanitize(name)+".json")
		confirmed := writeReplay(P, rp, *prop, g.failed[0], *repo)
		suffix := ""
		if !confirmed {
			suffix = " no-failing-input-found"
		}
		fmt.Printf("VIOLATION property=%s replay=%s obligation=%s%s\n", *prop, rp, name, suffix)
	}
	for _, name := range unexpectedDead {
		violations++
		exit = 1
		os.MkdirAll(replayDir, 0755)
		rp := filepath.Join(replayDir, sanitize(name)+".vacuity.json")
		js, _ := json.MarshalIndent(map[string]interface{}{"property": *prop, "obligation": name, "reason": "vacuity guard: no feasible path reaches this return under the contract's assumptions (contradictory contract/invariant, or dead code)",
			"note": "returns that are unreachable by design are listed in /verif/expected_unreachable.txt"}, "", " ")
		os.WriteFile(rp, js, 0644)
		fmt.Printf("VIOLATION property=%s replay=%s obligation=%s no-failing-input-found\n", *prop, rp, name)
	}
	for _, bf := range bindFails {
		violations++
		exit = 1
		os.MkdirAll(replayDir, 0755)
		nm := bf
		if i := strings.Index(bf, ":"); i >= 0 {
			nm = bf[:i]
		}
		rp := filepath.Join(replayDir, sanitize(nm)+".binding.json")
		js, _ := json.MarshalIndent(map[string]interface{}{"property": *prop, "obligation": nm + ".binding", "reason": "contract-binding / out-of-subset", "detail": bf,
			"note": "the contracts for this function can no longer be generated from the current source; every obligation of the function is undischarged"}, "", " ")
		os.WriteFile(rp, js, 0644)
		fmt.Printf("VIOLATION property=%s replay=%s obligation=%s.binding no-failing-input-found\n", *prop, rp, nm)
	}
	// vacuity: obligations must exist; compare with committed minimum
	minPath := filepath.Join(*verif, "expected_min.json")
	if data, err := os.ReadFile(minPath); err == nil {
		var mins map[string]map[string]int
		if json.Unmarshal(data, &mins) == nil {
			for fn, m := range mins[*prop] {
				if perFunc[fn] < m {
					alreadyBind := false
					for _, name := range unexpectedDead {
		violations++
		exit = 1
		os.MkdirAll(replayDir, 0755)
		rp := filepath.Join(replayDir, sanitize(name)+".vacuity.json")
		js, _ := json.MarshalIndent(map[string]interface{}{"property": *prop, "obligation": name, "reason": "vacuity guard: no feasible path reaches this return under the contract's assumptions (contradictory contract/invariant, or dead code)",
			"note": "returns that are unreachable by design are listed in /verif/expected_unreachable.txt"}, "", " ")
		os.WriteFile(rp, js, 0644)
		fmt.Printf("VIOLATION property=%s replay=%s obligation=%s no-failing-input-found\n", *prop, rp, name)
	}
	for _, bf := range bindFails {
						if strings.HasPrefix(bf, fn+":") {
							alreadyBind = true
						}
					}
					if alreadyBind {
						continue
					}
					violations++
					exit = 1
					os.MkdirAll(replayDir, 0755)
					rp := filepath.Join(replayDir, sanitize(fn)+".vacuity.json")
					js, _ := json.MarshalIndent(map[string]interface{}{"property": *prop, "obligation": fn + ".vacuity", "reason": fmt.Sprintf("only %d obligations generated, expected at least %d", perFunc[fn], m)}, "", " ")
					os.WriteFile(rp, js, 0644)
					fmt.Printf("VIOLATION property=%s replay=%s obligation=%s.vacuity no-failing-input-found\n", *prop, rp, fn)
				}
			}
		}
	}
	if total == 0 && exit == 0 {
		fmt.Printf("VIOLATION property=%s replay=%s obligation=none no-failing-input-found\n", *prop, evPath)
		exit = 1
		violations++
	}
	// evidence
	var assumptions []string
	for s := range usedExt {
		assumptions = append(assumptions, "assumed: "+s)
	}
	for s := range notes {
		assumptions = append(assumptions, "abstraction: "+s)
	}
	assumptions = append(assumptions, P.specs.Scanned...)
	assumptions = append(assumptions,
		"go/packages + go/ssa (x/tools v0.29.0) lower the source faithfully; gowp's symbolic semantics of SSA instructions is correct",
		"an unsat answer of z3-new 5.1.0, cvc5 1.0.3 or z3 4.8.12 is believed",
		"machine integers are modelled exactly (wrap-around) as mathematical Int with explicit mod; floats are IEEE-754 RNE via an uninterpreted bits->FP bridge",
		"partial correctness only: termination of loops is not proved",
		"per-operation contracts lift to all histories by induction over the history (not re-checked by the solver)")
	for _, f := range fixedList {
		assumptions = append(assumptions, "history: "+f)
	}
	sort.Strings(assumptions)
	var inl []string
	for s := range inlinedSet {
		inl = append(inl, s)
	}
	sort.Strings(inl)
	cov := map[string]interface{}{
		"obligations":  total,
		"discharged":   discharged,
		"checker_cmd":  fmt.Sprintf("/verif/bin/gowp check -prop %s -tier %s (solvers: z3-new -in -smt2, cvc5 --lang=smt2, z3 -in -smt2; timeout %d ms)", *prop, *tier, timeout),
		"trusted_base": []string{"gowp VC generator", "x/tools go/ssa v0.29.0", "z3-new 5.1.0", "cvc5 1.0.3", "z3 4.8.12", "trusted contracts in /verif/trusted/*.spec (only those listed under assumptions were used)"},
		"functions_under_contract": funcsUnder,
		"inlined_callees":          inl,
		"obligation_groups":        reports,
		"discharged_by_solver":     bySolver,
		"solver_ms_total":          solverMs,
		"known_findings_hit":       knownHit,
		"out_of_subset":            bindFails,
		"unreachable_returns":      deadReturns,
		"samples":                  samples,
		"explanation":              "each obligation is one SMT query (negated goal) generated from /repo's current SSA for one path segment of a function under contract; 'obligations' counts queries excluding known findings",
	}
	if *tier == "thorough" && violations == 0 {
		// sensitivity of this check: the must-fail mutants that touch functions of this property (never affects the exit code)
		cov["mutation_sensitivity"] = mutationSensitivity(*repo, *verif, keys)
	}
	ev := map[string]interface{}{
		"property_id": *prop, "tier": *tier, "seed": seed, "level": "proof", "coverage": cov,
		"assumptions": assumptions, "wall_s": time.Since(t0).Seconds(), "violations": violations,
	}
	js, _ := json.MarshalIndent(ev, "", " ")
	os.WriteFile(evPath, js, 0644)
	fmt.Printf("property %s: %d/%d obligations discharged, %d violation(s), %d known finding(s), %.1fs\n", *prop, discharged, total, violations, knownHit, time.Since(t0).Seconds())
	return exit
}

func clauseHasProp(c *Contract, p string) bool {
	for _, cl := range c.Ensures {
		if hasProp(cl.Props, p) {
			return true
		}
	}
	for _, cl := range c.Checks {
		if hasProp(cl.Props, p) {
			return true
		}
	}
	for _, ba := range c.BeforeAsserts {
		if hasProp(ba.C.Props, p) {
			return true
		}
	}
	return false
}

// writeReplay writes the replay file of a failed obligation. Returns whether the
// counterexample was confirmed on the real code.
func writeReplay(P *Prog, path, prop string, o *Obligation, repo string) bool {
	m := map[string]interface{}{
		"property":   prop,
		"obligation": o.Name,
		"function":   o.Func,
		"kind":       o.Kind,
		"pos":        o.Pos,
		"goal":       o.Goal,
		"path_trace": o.Trace,
		"verdict":    o.Result.Verdict,
		"solver":     o.Result.Solver,
		"solver_outputs": o.Result.Outputs,
		"smt":        o.script(P, true),
	}
	confirmed := false
	if o.Result.Verdict == "sat" {
		inputs := modelInputs(o.Result.Model)
		m["model_inputs"] = inputs
		ok, detail := tryReplay(P, o, inputs, repo)
		m["replay"] = detail
		confirmed = ok
	}
	m["confirmed"] = confirmed
	js, _ := json.MarshalIndent(m, "", " ")
	os.WriteFile(path, js, 0644)
	return confirmed
}

// modelInputs extracts the values of parameter constants (p_name_N) from a model.
func modelInputs(model string) map[string]string {
	res := map[string]string{}
	lines := strings.Split(model, "\n")
	for i := 0; i < len(lines); i++ {
		ln := strings.TrimSpace(lines[i])
		if !strings.HasPrefix(ln, "(define-fun p_") {
			continue
		}
		f := strings.Fields(ln)
		name := f[1]
		val := ""
		// value may be on the same line or the next
		if j := strings.Index(ln, ") "); j >= 0 && len(f) > 4 {
			val = strings.TrimSuffix(strings.TrimSpace(ln[strings.Index(ln, f[3])+len(f[3]):]), ")")
		}
		if strings.TrimSpace(val) == "" && i+1 < len(lines) {
			val = strings.TrimSuffix(strings.TrimSpace(lines[i+1]), ")")
		}
		res[name] = strings.TrimSpace(val)
	}
	return res
}


// mutationSensitivity applies each single-line mutant of selftest/mutants.txt whose target functions are among the
// functions of this property to a scratch copy of the repository and re-verifies those functions there.
func mutationSensitivity(repo, verif string, keys []string) map[string]interface{} {
	inProp := map[string]bool{}
	for _, k := range keys {
		inProp[k] = true
		inProp[strings.TrimPrefix(k, ":")] = true
	}
	data, err := os.ReadFile(filepath.Join(verif, "selftest", "mutants.txt"))
	if err != nil {
		return map[string]interface{}{"error": err.Error()}
	}
	var killed, survived, skipped []string
	for _, ln := range strings.Split(string(data), "\n") {
		parts := strings.Split(ln, "@@")
		if len(parts) != 4 || strings.HasPrefix(ln, "#") || parts[3] == "" {
			continue
		}
		name, file, expr, funcs := parts[0], parts[1], parts[2], strings.Split(parts[3], ";")
		hit := false
		for _, f := range funcs {
			if inProp[f] {
				hit = true
			}
		}
		if !hit {
			continue
		}
		tmp, err := os.MkdirTemp("", "gowp-mut")
		if err != nil {
			skipped = append(skipped, name+": "+err.Error())
			continue
		}
		func() {
			defer os.RemoveAll(tmp)
			dst := filepath.Join(tmp, "repo")
			if out, err := exec.Command("rsync", "-a", "--exclude", ".git", repo+"/", dst+"/").CombinedOutput(); err != nil {
				skipped = append(skipped, name+": rsync: "+string(out))
				return
			}
			if out, err := exec.Command("sed", "-i", expr, filepath.Join(dst, file)).CombinedOutput(); err != nil {
				skipped = append(skipped, name+": sed: "+string(out))
				return
			}
			MP, err := loadAll(dst, verif)
			if err != nil {
				killed = append(killed, name+" (does not load: counted as detected)")
				return
			}
			dead := false
			var obls []*Obligation
			for _, f := range funcs {
				k := f
				if !strings.Contains(k, ":") {
					k = ":" + k
				}
				r := MP.verifyFunc(k, false)
				if r.OutOfSub != "" {
					dead = true
				}
				obls = append(obls, r.Obls...)
			}
			// posts, invariants and asserts first; stop at the first obligation that no longer discharges
			sort.SliceStable(obls, func(i, j int) bool {
				ri := strings.HasPrefix(obls[i].Kind, "safety") || obls[i].Cover
				rj := strings.HasPrefix(obls[j].Kind, "safety") || obls[j].Cover
				return !ri && rj
			})
			for start := 0; start < len(obls) && !dead; start += 60 {
				end := start + 60
				if end > len(obls) {
					end = len(obls)
				}
				chunk := obls[start:end]
				solveAll(MP, chunk, 8000, false, 6)
				for _, o := range chunk {
					if !o.Cover && o.Result != nil && o.Result.Verdict != "unsat" {
						dead = true
					}
				}
			}
			if dead {
				killed = append(killed, name)
			} else {
				survived = append(survived, name)
			}
		}()
	}
	sort.Strings(killed)
	sort.Strings(survived)
	for _, sname := range survived {
		fmt.Printf("SENSITIVITY: mutant %s is not detected by the contracts of this property\n", sname)
	}
	return map[string]interface{}{"mutants_run": len(killed) + len(survived), "killed": killed, "survived": survived, "skipped": skipped,
		"rule": "single-line mutants from selftest/mutants.txt whose target functions are checked for this property; killed = some obligation of the target functions no longer discharges"}
}
