package main

// Loading /repo, naming functions, loop structure.

import (
	"fmt"
	"go/token"
	"go/types"
	"os"
	"path/filepath"
	"sort"
	"strings"
	"sync"

	"golang.org/x/tools/go/packages"
	"golang.org/x/tools/go/ssa"
	"golang.org/x/tools/go/ssa/ssautil"
)

type Prog struct {
	prog    *ssa.Program
	fset    *token.FileSet
	pkgs    map[string]*ssa.Package // "" (root), "cmd"
	funcs   map[string]*ssa.Function
	fnKey   map[*ssa.Function]string
	ss      *Sorts
	specs   *Specs
	loops   map[*ssa.Function]*LoopInfo
	repoDir string

	sentinels map[string]int
	strlits   map[string]int
	usedRec   map[string]bool
	recCache  map[string]string
	gconst    map[*ssa.Global]bool
	recTemplates map[string]*recTemplate
	mu        sync.Mutex
	siteMu    sync.Mutex
	derefDefs map[string]string // deref_<T> declarations + defining axioms
	localSnap map[string][][2]string // named locals (name, type) in source order when the contracts were written
	localCur  map[*ssa.Function][][2]string
	paramSnap map[string][]string // parameter names at the time the contracts were written (/verif/paramnames.json)
	tupleTop  map[string]string   // "f h1 h2.." -> allocator top when f first read that heap version
	recParams map[string][]recParam
	nonlinearDef map[string]bool
	sites        map[string][]interiorSite
	structTypes  map[string]types.Type // named struct types of the repository
	recBuilding  map[string]bool
	recHeapKeys  map[string][]heapParam
}

func pkgKeyOf(path string) (string, bool) {
	if path == repoPath {
		return "", true
	}
	if strings.HasPrefix(path, repoPath+"/") {
		return strings.TrimPrefix(path, repoPath+"/"), true
	}
	return "", false
}

func loadProg(repoDir string) (*Prog, error) {
	cfg := &packages.Config{Mode: packages.LoadAllSyntax, Dir: repoDir, Tests: false,
		Env: append(os.Environ(), "GOFLAGS=-mod=mod", "GOPROXY=off", "GOSUMDB=off", "GOTOOLCHAIN=local")}
	pkgs, err := packages.Load(cfg, ".", "./cmd")
	if err != nil {
		return nil, err
	}
	for _, p := range pkgs {
		if len(p.Errors) > 0 {
			return nil, fmt.Errorf("package %s: %v", p.PkgPath, p.Errors[0])
		}
	}
	prog, spkgs := ssautil.AllPackages(pkgs, ssa.GlobalDebug)
	prog.Build()
	P := &Prog{prog: prog, fset: prog.Fset, pkgs: map[string]*ssa.Package{}, funcs: map[string]*ssa.Function{},
		fnKey: map[*ssa.Function]string{}, ss: newSorts(), loops: map[*ssa.Function]*LoopInfo{}, repoDir: repoDir,
		sentinels: map[string]int{}, strlits: map[string]int{}, usedRec: map[string]bool{}}
	for _, sp := range spkgs {
		if sp == nil {
			continue
		}
		k, ok := pkgKeyOf(sp.Pkg.Path())
		if !ok {
			continue
		}
		P.pkgs[k] = sp
		for _, m := range sp.Members {
			switch m := m.(type) {
			case *ssa.Function:
				P.addFunc(k, m)
			case *ssa.Type:
				if _, isStruct := m.Type().Underlying().(*types.Struct); isStruct {
					if P.structTypes == nil {
						P.structTypes = map[string]types.Type{}
					}
					P.structTypes[m.Type().String()] = m.Type()
				}
				for _, t := range []types.Type{m.Type(), types.NewPointer(m.Type())} {
					ms := prog.MethodSets.MethodSet(t)
					for i := 0; i < ms.Len(); i++ {
						if f := prog.MethodValue(ms.At(i)); f != nil && f.Synthetic == "" {
							P.addFunc(k, f)
						}
					}
				}
			}
		}
	}
	P.ss.sitesOf = func(t types.Type) int {
		if _, ok := t.Underlying().(*types.Struct); !ok {
			return 0
		}
		return len(P.sitesFor(t))
	}
	// dependency audit: functions of the page-buffer dependency can be put under contract too
	// (key "dep/filebuffer:<name>"); calls into the dependency from /repo keep using the assumed contracts
	for _, sp := range prog.AllPackages() {
		if sp.Pkg.Path() == "github.com/hnakamur/filebuffer" {
			for _, m := range sp.Members {
				if f, isF := m.(*ssa.Function); isF {
					P.funcs["dep/filebuffer:"+funcName(f)] = f
				}
			}
		}
	}
	return P, nil
}

// funcName gives the contract key name of a function: "floorMod",
// "(*ArchiveInfo).pointIndex", "(Timestamp).Add", "copyOneFile$1".
func funcName(f *ssa.Function) string {
	if f.Parent() != nil {
		return funcName(f.Parent()) + strings.TrimPrefix(f.Name(), f.Parent().Name())
	}
	if recv := f.Signature.Recv(); recv != nil {
		t := recv.Type()
		if p, ok := t.(*types.Pointer); ok {
			return "(*" + typeBase(p.Elem()) + ")." + f.Name()
		}
		return "(" + typeBase(t) + ")." + f.Name()
	}
	return f.Name()
}

func typeBase(t types.Type) string {
	if n, ok := t.(*types.Named); ok {
		return n.Obj().Name()
	}
	return t.String()
}

func (P *Prog) addFunc(k string, f *ssa.Function) {
	if _, ok := P.fnKey[f]; ok {
		return
	}
	key := k + ":" + funcName(f)
	P.funcs[key] = f
	P.fnKey[f] = key
	for _, af := range f.AnonFuncs {
		P.addFunc(k, af)
	}
}

// extName is the key used for trusted contracts of functions outside the repo.
func extName(f *ssa.Function) string {
	return f.String()
}

func (P *Prog) contractOf(f *ssa.Function) *Contract {
	if k, ok := P.fnKey[f]; ok {
		return P.specs.Funcs[k]
	}
	return P.specs.Funcs["ext:"+extName(f)]
}

func (P *Prog) pos(p token.Pos) string {
	if !p.IsValid() {
		return ""
	}
	ps := P.fset.Position(p)
	rel, err := filepath.Rel(P.repoDir, ps.Filename)
	if err != nil {
		rel = ps.Filename
	}
	return fmt.Sprintf("%s:%d", rel, ps.Line)
}

// ------------------------------------------------------------------ loops

type Loop struct {
	Head    *ssa.BasicBlock
	Blocks  map[*ssa.BasicBlock]bool
	Ordinal int
	MinPos  token.Pos
}

type LoopInfo struct {
	Loops  map[*ssa.BasicBlock]*Loop
	ByOrd  []*Loop
	IsBack map[[2]int]bool // (from,to) block indices
}

func (P *Prog) loopInfo(f *ssa.Function) *LoopInfo {
	if li, ok := P.loops[f]; ok {
		return li
	}
	li := &LoopInfo{Loops: map[*ssa.BasicBlock]*Loop{}, IsBack: map[[2]int]bool{}}
	for _, b := range f.Blocks {
		for _, s := range b.Succs {
			if s.Dominates(b) {
				li.IsBack[[2]int{b.Index, s.Index}] = true
				l := li.Loops[s]
				if l == nil {
					l = &Loop{Head: s, Blocks: map[*ssa.BasicBlock]bool{s: true}}
					li.Loops[s] = l
				}
				// natural loop: all blocks that reach b without passing through s
				var stack []*ssa.BasicBlock
				if !l.Blocks[b] {
					l.Blocks[b] = true
					stack = append(stack, b)
				}
				for len(stack) > 0 {
					n := stack[len(stack)-1]
					stack = stack[:len(stack)-1]
					for _, p := range n.Preds {
						if !l.Blocks[p] {
							l.Blocks[p] = true
							stack = append(stack, p)
						}
					}
				}
			}
		}
	}
	for _, l := range li.Loops {
		for b := range l.Blocks {
			for _, in := range b.Instrs {
				if _, ok := in.(*ssa.DebugRef); ok {
					continue
				}
				if p := in.Pos(); p.IsValid() && (l.MinPos == 0 || p < l.MinPos) {
					l.MinPos = p
				}
			}
		}
		li.ByOrd = append(li.ByOrd, l)
	}
	sort.Slice(li.ByOrd, func(i, j int) bool {
		if li.ByOrd[i].MinPos != li.ByOrd[j].MinPos {
			return li.ByOrd[i].MinPos < li.ByOrd[j].MinPos
		}
		return li.ByOrd[i].Head.Index < li.ByOrd[j].Head.Index
	})
	for i, l := range li.ByOrd {
		l.Ordinal = i
	}
	P.loops[f] = li
	return li
}

// globalConst reports whether a package-level variable is only written by its package initialiser.
func (P *Prog) globalConst(g *ssa.Global) bool {
	if v, ok := P.gconst[g]; ok {
		return v
	}
	res := true
	for fn := range ssautil.AllFunctions(P.prog) {
		if fn.Name() == "init" || strings.HasPrefix(fn.Name(), "init#") {
			continue
		}
		for _, b := range fn.Blocks {
			for _, in := range b.Instrs {
				if s, ok := in.(*ssa.Store); ok && s.Addr == ssa.Value(g) {
					res = false
				}
			}
		}
	}
	if P.gconst == nil {
		P.gconst = map[*ssa.Global]bool{}
	}
	P.gconst[g] = res
	return res
}

// recParam describes a non-heap parameter of an opaque/rec spec function for reads framing.
type recParam struct {
	sort string
	ref  int // 0 plain value, 1 pointer (Int root), 2 slice, 3 value containing references (no framing)
}

// paramAlias: the name parameter i of fn had when the contracts were written, if it differs from the current name
// (a renamed parameter keeps its position; contracts keep binding it).
func (P *Prog) paramAlias(fn *ssa.Function, i int) string {
	k, ok := P.fnKey[fn]
	if !ok || P.paramSnap == nil {
		return ""
	}
	names := P.paramSnap[k]
	if len(names) != len(fn.Params) || i >= len(names) {
		return ""
	}
	for j, p := range fn.Params {
		// the old name must not now denote another parameter
		if j != i && p.Name() == names[i] {
			return ""
		}
	}
	if names[i] == fn.Params[i].Name() {
		return ""
	}
	return names[i]
}

// localsOf lists the named local variables of fn (name, type) in source order, from the debug references.
func (P *Prog) localsOf(fn *ssa.Function) [][2]string {
	P.mu.Lock()
	defer P.mu.Unlock()
	if P.localCur == nil {
		P.localCur = map[*ssa.Function][][2]string{}
	}
	if l, ok := P.localCur[fn]; ok {
		return l
	}
	type ent struct {
		pos  token.Pos
		name string
		typ  string
	}
	seen := map[types.Object]bool{}
	var es []ent
	params := map[string]bool{}
	for _, p := range fn.Params {
		params[p.Name()] = true
	}
	for _, b := range fn.Blocks {
		for _, in := range b.Instrs {
			dr, ok := in.(*ssa.DebugRef)
			if !ok || dr.Object() == nil {
				continue
			}
			v, ok := dr.Object().(*types.Var)
			if !ok || seen[v] || v.IsField() || v.Pkg() == nil {
				continue
			}
			if v.Parent() == nil || v.Parent() == v.Pkg().Scope() {
				continue // package-level variable
			}
			seen[v] = true
			es = append(es, ent{v.Pos(), v.Name(), v.Type().String()})
		}
	}
	sort.Slice(es, func(i, j int) bool { return es[i].pos < es[j].pos })
	var out [][2]string
	for _, e := range es {
		out = append(out, [2]string{e.name, e.typ})
	}
	P.localCur[fn] = out
	return out
}

// localAlias: when the named local no longer exists in fn but the function's ordered list of locals still has
// the shape (count and types) it had when the contracts were written, the local that now stands at the same position.
func (P *Prog) localAlias(fn *ssa.Function, name string) string {
	k, ok := P.fnKey[fn]
	if !ok || P.localSnap == nil {
		return name
	}
	snap := P.localSnap[k]
	if len(snap) == 0 {
		return name
	}
	cur := P.localsOf(fn)
	if len(cur) != len(snap) {
		return name
	}
	idx := -1
	for i := range snap {
		if snap[i][1] != cur[i][1] {
			return name
		}
		if cur[i][0] == name {
			return name // still exists
		}
		if snap[i][0] == name && idx < 0 {
			idx = i
		}
	}
	if idx < 0 {
		return name
	}
	return cur[idx][0]
}
