package main

// Evaluation of contract expressions to SMT terms over a symbolic state.

import (
	"os"
	"golang.org/x/tools/go/ssa"
	"fmt"
	"go/constant"
	"go/types"
	"math"
	"strings"
)

type Snapshot struct {
	heaps map[string]string
	top   string
}

func (st *State) snapshot() *Snapshot {
	s := &Snapshot{heaps: map[string]string{}, top: st.top}
	for k, v := range st.heaps {
		s.heaps[k] = v
	}
	return s
}

type Env struct {
	st     *State
	vars   map[string]Val
	old    *Snapshot
	useOld bool
	pkg    string
	depth  int
	bound  map[string]bool
	fr     *Frame
	localsFirst bool
	pinned      map[string]Val
}

func (e *Env) child() *Env {
	n := *e
	n.vars = map[string]Val{}
	for k, v := range e.vars {
		n.vars[k] = v
	}
	return &n
}

func specInt(t string) Val  { return Val{K: KInt, T: t} }
func specBool(t string) Val { return Val{K: KBool, T: t} }

// heapFor returns the heap constant to read in the env's current mode.
func (x *Exec) heapFor(env *Env, key, sort string) string {
	cur := env.st.heap(key, sort) // make sure it is declared
	if env.useOld {
		if env.old == nil {
			bail("old() used where no pre-state is available")
		}
		if h, ok := env.old.heaps[key]; ok {
			return h
		}
		return heapInit(key)
	}
	return cur
}

func (x *Exec) specLoad(env *Env, p *Pointer) Val {
	ss := x.P.ss
	if p.Local != nil {
		return x.load(env.st, p)
	}
	if p.Heap == "" {
		bail("spec dereferences opaque pointer to %v", p.Elem)
	}
	h := x.heapFor(env, p.Heap, ss.heapSort(p.Elem, p.Rows))
	var term string
	if p.Rows {
		term = sx("select", sx("select", h, p.Root), p.Idx)
	} else if p.Enc {
		bnd := map[string]bool{}
		for b := range env.bound {
			bnd[b] = true
			if v, ok := env.vars[b]; ok {
				bnd[v.T] = true
			}
		}
		term = x.nameCell(env.st, p, x.encCell(p, func(key, sort string) string { return x.heapFor(env, key, sort) }), bnd)
	} else {
		term = sx("select", h, p.Root)
	}
	t := p.Elem
	for _, f := range p.Path {
		s := ss.structSort(t)
		term = sx(s.Fields[f].Name, term)
		t = s.Fields[f].Typ
	}
	return x.mkVal(term, t)
}

func (x *Exec) lookupGo(pkg, name string) types.Object {
	order := []string{pkg, "", "cmd"}
	for _, k := range order {
		if sp, ok := x.P.pkgs[k]; ok {
			if o := sp.Pkg.Scope().Lookup(name); o != nil {
				return o
			}
		}
	}
	return nil
}

func (x *Exec) resolveType(pkg, name string) types.Type {
	switch {
	case strings.HasPrefix(name, "[]"):
		return types.NewSlice(x.resolveType(pkg, name[2:]))
	case strings.HasPrefix(name, "*"):
		return types.NewPointer(x.resolveType(pkg, name[1:]))
	}
	switch name {
	case "int":
		return nil // spec integer
	case "bool":
		return types.Typ[types.Bool]
	case "byte", "uint8":
		return types.Typ[types.Uint8]
	case "uint32":
		return types.Typ[types.Uint32]
	case "uint64":
		return types.Typ[types.Uint64]
	case "int64":
		return types.Typ[types.Int64]
	case "int32":
		return types.Typ[types.Int32]
	case "goint":
		return types.Typ[types.Int]
	case "float64":
		return types.Typ[types.Float64]
	case "float32":
		return types.Typ[types.Float32]
	case "string":
		return types.Typ[types.String]
	case "error":
		return types.Universe.Lookup("error").Type()
	}
	if i := strings.Index(name, "."); i >= 0 {
		name = name[i+1:]
	}
	if o := x.lookupGo(pkg, name); o != nil {
		if tn, ok := o.(*types.TypeName); ok {
			return tn.Type()
		}
	}
	bail("unknown type %q in specification", name)
	return nil
}

func (x *Exec) sentinel(name string) string {
	id, ok := x.P.sentinels[name]
	if !ok {
		id = len(x.P.sentinels) + 1
		x.P.sentinels[name] = id
	}
	return fmt.Sprintf("(ErrSentinel %d)", id)
}

func (x *Exec) fpWidth(v Val) int {
	if v.K == KFloat {
		w, _ := isFloat(v.Typ)
		return w
	}
	if v.K == KFP {
		if strings.Contains(v.T, "to_fp 8 24") || v.Typ == types.Typ[types.Float32] {
			return 32
		}
		return 64
	}
	return 0
}

// fpTerm gives the FloatingPoint-sorted view of a float value.
func fpTerm(v Val, w int) string {
	switch v.K {
	case KFloat:
		if w == 32 {
			return sx("f32", v.T)
		}
		return sx("f64", v.T)
	case KFP:
		return v.T
	case KReal:
		return fpLit(v.T, w)
	case KInt:
		if isLit(v.T) {
			return fpLit(v.T+".0", w)
		}
		if w == 32 {
			return sx("(_ to_fp 8 24) RNE", sx("to_real", v.T))
		}
		return sx("(_ to_fp 11 53) RNE", sx("to_real", v.T))
	}
	bail("not a float value")
	return ""
}

func fpLit(dec string, w int) string {
	if strings.HasPrefix(dec, "-") {
		dec = "(- " + dec[1:] + ")"
	}
	if w == 32 {
		return "((_ to_fp 8 24) RNE " + dec + ")"
	}
	return "((_ to_fp 11 53) RNE " + dec + ")"
}

func (x *Exec) evalSpec(e *Expr, env *Env) Val {
	switch e.Op {
	case "int":
		n := e.Name
		if strings.HasPrefix(n, "0x") || strings.HasPrefix(n, "0X") {
			var v uint64
			fmt.Sscanf(n[2:], "%x", &v)
			n = fmt.Sprintf("%d", v)
		}
		return specInt(n)
	case "float":
		return Val{K: KReal, T: e.Name}
	case "ident":
		return x.evalIdent(e.Name, env)
	case "old":
		n := *env
		n.useOld = true
		return x.evalSpec(e.Args[0], &n)
	case "field":
		base := x.evalSpec(e.Args[0], env)
		return x.specField(base, e.Name, env)
	case "index":
		base := x.evalSpec(e.Args[0], env)
		idx := x.evalSpec(e.Args[1], env)
		return x.specIndex(base, idx, env)
	case "slice":
		base := x.evalSpec(e.Args[0], env)
		if base.K != KSlice {
			bail("slicing a non-slice in spec: %s", e)
		}
		lo := "0"
		if e.Args[1] != nil {
			lo = x.evalSpec(e.Args[1], env).T
		}
		hi := sLen(base.T)
		if e.Args[2] != nil {
			hi = x.evalSpec(e.Args[2], env).T
		}
		return Val{K: KSlice, Typ: base.Typ, T: sx("mk_slice", sArr(base.T), plus(sOff(base.T), lo), minus(hi, lo), minus(sCap(base.T), lo))}
	case "unary":
		a := x.evalSpec(e.Args[0], env)
		switch e.Name {
		case "!":
			return specBool(not(a.T))
		case "-":
			if a.K == KReal {
				return Val{K: KReal, T: "-" + a.T}
			}
			if isLit(a.T) && !strings.HasPrefix(a.T, "-") {
				return specInt(lit("-" + a.T))
			}
			return specInt(sx("-", a.T))
		case "*":
			if a.K != KPtr || a.Ptr == nil {
				bail("deref of non-pointer in spec: %s", e)
			}
			return x.specLoad(env, a.Ptr)
		}
	case "binary":
		return x.evalBinary(e, env)
	case "forall", "exists":
		n := env.child()
		var bs []string
		n.bound = map[string]bool{}
		for k := range env.bound {
			n.bound[k] = true
		}
		for _, v := range e.Vars {
			nm := x.freshName("q_" + v)
			n.bound[v] = true
			n.vars[v] = specInt(nm)
			bs = append(bs, "("+nm+" Int)")
		}
		body := x.evalSpec(e.Args[0], n)
		var bnames []string
		for _, v := range e.Vars {
			bnames = append(bnames, n.vars[v].T)
		}
		_ = bs
		return specBool(normalizeForall(e.Op, bnames, body.T))
	case "call":
		return x.evalCall(e, env)
	case "str":
		return Val{K: KOpaque, T: e.Name}
	}
	bail("cannot evaluate spec expression %s", e)
	return Val{}
}

func (x *Exec) evalIdent(name string, env *Env) Val {
	if env.pinned != nil && !env.bound[name] {
		// names that must not be shadowed by locals (callee parameters in assert/use ... before f)
		if v, ok := env.pinned[name]; ok {
			return v
		}
	}
	if env.fr != nil && !env.bound[name] {
		if v, ok := x.lookupPhi(env.fr, name, env.st); ok {
			return v
		}
	}
	if env.localsFirst && env.fr != nil && !env.bound[name] {
		if v, ok := x.lookupLocal(env.fr, name, env.st); ok {
			return v
		}
	}
	if v, ok := env.vars[name]; ok {
		return v
	}
	switch name {
	case "true", "false":
		return specBool(name)
	case "nil":
		return Val{K: KOpaque, T: "nil"}
	case "MaxInt32":
		return specInt("2147483647")
	case "MaxUint32":
		return specInt("4294967295")
	case "MaxInt64":
		return specInt("9223372036854775807")
	case "top":
		if env.useOld && env.old != nil {
			return specInt(env.old.top)
		}
		return specInt(env.st.top)
	}
	if env.fr != nil {
		if v, ok := x.lookupLocal(env.fr, name, env.st); ok {
			return v
		}
	}
	if o := x.lookupGo(env.pkg, name); o != nil {
		switch o := o.(type) {
		case *types.Const:
			v := o.Val()
			if v.Kind() == constant.Int {
				return specInt(lit(v.ExactString()))
			}
			if v.Kind() == constant.Bool {
				return specBool(fmt.Sprint(constant.BoolVal(v)))
			}
		case *types.Var:
			if isErrorType(o.Type()) {
				return Val{K: KErr, T: x.sentinel(o.Pkg().Path() + "." + o.Name()), Typ: o.Type()}
			}
		}
	}
	bail("unknown identifier %q in specification", name)
	return Val{}
}

func (x *Exec) specField(base Val, name string, env *Env) Val {
	ss := x.P.ss
	if base.K == KPtr {
		if base.Ptr == nil {
			bail("field of opaque pointer")
		}
		st, ok := pathType(base.Ptr.Elem, base.Ptr.Path).Underlying().(*types.Struct)
		if !ok {
			bail("field %s of pointer to non-struct", name)
		}
		for i := 0; i < st.NumFields(); i++ {
			if st.Field(i).Name() == name {
				np := *base.Ptr
				np.Path = append(append([]int(nil), base.Ptr.Path...), i)
				return x.specLoad(env, &np)
			}
		}
		bail("no field %s", name)
	}
	if base.K == KStruct {
		s := ss.structSort(base.Typ)
		for i := 0; i < s.Typ.NumFields(); i++ {
			if s.Typ.Field(i).Name() == name {
				return x.mkVal(sx(s.Fields[i].Name, base.T), s.Fields[i].Typ)
			}
		}
		bail("no field %s in %s", name, s.Name)
	}
	if base.K == KSlice {
		switch name {
		case "arr":
			return specInt(sArr(base.T))
		case "off":
			return specInt(sOff(base.T))
		}
	}
	bail("field access %s on value of kind %d", name, base.K)
	return Val{}
}

func (x *Exec) specIndex(base, idx Val, env *Env) Val {
	if base.K == KArr {
		if base.Typ != nil {
			return x.mkVal(sx("select", base.T, idx.T), base.Typ)
		}
		return specInt(sx("select", base.T, idx.T))
	}
	if base.K != KSlice {
		bail("indexing a non-slice in spec")
	}
	p := x.elemPtr(base, idx.T)
	return x.specLoad(env, p)
}

// Arithmetic with two symbolic operands goes through named functions (mulS, fdivS, fmodS, tdivS,
// tmodS) that are defined as the real operations in the full script variant and left
// uninterpreted in the variants that hide nonlinear definitions.
func symbolicOperand(s string) bool { return !isLit(s) && !isNegLit(s) }

func mulT(a, b string) string {
	if symbolicOperand(a) && symbolicOperand(b) {
		return sx("mulS", a, b)
	}
	return sx("*", a, b)
}
func tdiv(a, b string) string {
	if symbolicOperand(b) {
		return sx("tdivS", a, b)
	}
	return sx("tdiv", a, b)
}
func tmod(a, b string) string {
	if symbolicOperand(b) {
		return sx("tmodS", a, b)
	}
	return sx("tmod", a, b)
}
func fdivT(a, b string) string {
	if symbolicOperand(b) {
		return sx("fdivS", a, b)
	}
	return sx("div", a, b)
}
func fmodT(a, b string) string {
	if symbolicOperand(b) {
		return sx("fmodS", a, b)
	}
	return sx("mod", a, b)
}

func (x *Exec) evalBinary(e *Expr, env *Env) Val {
	op := e.Name
	switch op {
	case "&&":
		a := x.evalSpec(e.Args[0], env)
		b := x.evalSpec(e.Args[1], env)
		return specBool(and(a.T, b.T))
	case "||":
		a := x.evalSpec(e.Args[0], env)
		b := x.evalSpec(e.Args[1], env)
		return specBool(or(a.T, b.T))
	case "==>":
		a := x.evalSpec(e.Args[0], env)
		b := x.evalSpec(e.Args[1], env)
		return specBool(implies(a.T, b.T))
	case "<==>":
		a := x.evalSpec(e.Args[0], env)
		b := x.evalSpec(e.Args[1], env)
		return specBool(sx("=", a.T, b.T))
	}
	a := x.evalSpec(e.Args[0], env)
	b := x.evalSpec(e.Args[1], env)
	isF := func(v Val) bool { return v.K == KFloat || v.K == KFP || v.K == KReal }
	switch op {
	case "+", "-", "*", "/", "%", "fdiv", "fmod":
		if (a.K == KFloat || a.K == KFP) || (b.K == KFloat || b.K == KFP) {
			w := x.fpWidth(a)
			if w == 0 {
				w = x.fpWidth(b)
			}
			fa, fb := fpTerm(a, w), fpTerm(b, w)
			var fop string
			switch op {
			case "+":
				fop = "fadd"
			case "-":
				fop = "fsub"
			case "*":
				fop = "fmul"
			case "/":
				fop = "fdiv"
			default:
				bail("float operator %s unsupported in spec", op)
			}
			// arithmetic is an uninterpreted function of its operands (IEEE RNE in reality): proofs
			// rely only on the code and the specification applying the same operation to the same operands
			r := Val{K: KFP, T: sx(fmt.Sprintf("%s%d", fop, w), fa, fb)}
			if w == 32 {
				r.Typ = types.Typ[types.Float32]
			}
			return r
		}
		switch op {
		case "+":
			return specInt(sx("+", a.T, b.T))
		case "-":
			return specInt(sx("-", a.T, b.T))
		case "*":
			return specInt(mulT(a.T, b.T))
		case "/":
			return specInt(tdiv(a.T, b.T))
		case "%":
			return specInt(tmod(a.T, b.T))
		case "fdiv":
			return specInt(fdivT(a.T, b.T))
		case "fmod":
			return specInt(fmodT(a.T, b.T))
		}
	case "<", "<=", ">", ">=":
		if isF(a) && (a.K != KReal || isF(b)) || isF(b) && b.K != KReal {
			w := x.fpWidth(a)
			if w == 0 {
				w = x.fpWidth(b)
			}
			if w == 0 {
				w = 64
			}
			fop := map[string]string{"<": "fp.lt", "<=": "fp.leq", ">": "fp.gt", ">=": "fp.geq"}[op]
			return specBool(sx(fop, fpTerm(a, w), fpTerm(b, w)))
		}
		return specBool(sx(op, a.T, b.T))
	case "==", "!=", "===", "!==":
		var eq string
		switch {
		case a.K == KOpaque && a.T == "nil":
			eq = x.isNil(b)
		case b.K == KOpaque && b.T == "nil":
			eq = x.isNil(a)
		case (op == "==" || op == "!=") && (a.K == KFP || b.K == KFP) && !(a.K == KInt || b.K == KInt):
			// spec-level floating-point values: structural equality (NaN equals NaN)
			w := x.fpWidth(a)
			if w == 0 {
				w = x.fpWidth(b)
			}
			if w == 0 {
				w = 64
			}
			eq = sx("=", fpTerm(a, w), fpTerm(b, w))
		case (op == "==" || op == "!=") && (isF(a) || isF(b)) && !(a.K == KInt || b.K == KInt):
			w := x.fpWidth(a)
			if w == 0 {
				w = x.fpWidth(b)
			}
			if w == 0 {
				w = 64
			}
			eq = sx("fp.eq", fpTerm(a, w), fpTerm(b, w))
		case a.K == KPtr || b.K == KPtr:
			eq = x.ptrEq(a, b)
		default:
			eq = sx("=", x.termOf(a), x.termOf(b))
		}
		if op == "!=" || op == "!==" {
			return specBool(not(eq))
		}
		return specBool(eq)
	}
	bail("unsupported operator %s in spec", op)
	return Val{}
}

func (x *Exec) isNil(v Val) string {
	switch v.K {
	case KPtr:
		if v.Ptr == nil {
			return sx("=", v.T, "0")
		}
		if v.Ptr.Local != nil || v.Ptr.Fresh {
			return "false"
		}
		if len(v.Ptr.Path) > 0 || (v.Ptr.Rows && !v.Ptr.IsArr) {
			return "false" // interior pointers are never nil (their base was checked)
		}
		return sx("=", v.Ptr.Root, "0")
	case KErr:
		return sx("=", v.T, "ErrNil")
	case KSlice:
		return sx("=", sArr(v.T), "0")
	case KOpaque, KInt:
		return sx("=", v.T, "0")
	case KIface:
		return "false"
	case KFunc:
		return "false"
	}
	bail("nil comparison on kind %d", v.K)
	return ""
}

func (x *Exec) ptrEq(a, b Val) string {
	if a.K != KPtr || b.K != KPtr {
		return sx("=", x.termOf(a), x.termOf(b))
	}
	pa, pb := a.Ptr, b.Ptr
	if pa == nil || pb == nil {
		return sx("=", x.termOf(a), x.termOf(b))
	}
	if pa.Local != nil || pb.Local != nil {
		if pa.Local == pb.Local && fmt.Sprint(pa.Path) == fmt.Sprint(pb.Path) {
			return "true"
		}
		return "false"
	}
	if pa.Heap != pb.Heap || fmt.Sprint(pa.Path) != fmt.Sprint(pb.Path) {
		if len(pa.Path) == 0 && len(pb.Path) == 0 {
			// different static heaps: equal only if both nil
			return and(sx("=", pa.Root, "0"), sx("=", pb.Root, "0"))
		}
		return "false"
	}
	if pa.Rows {
		return and(sx("=", pa.Root, pb.Root), sx("=", pa.Idx, pb.Idx))
	}
	return sx("=", pa.Root, pb.Root)
}

func (x *Exec) evalCall(e *Expr, env *Env) Val {
	args := func() []Val {
		var vs []Val
		for _, a := range e.Args {
			vs = append(vs, x.evalSpec(a, env))
		}
		return vs
	}
	switch e.Name {
	case "len":
		a := args()[0]
		if a.K != KSlice {
			bail("len of non-slice in spec")
		}
		return specInt(sLen(a.T))
	case "cap":
		a := args()[0]
		return specInt(sCap(a.T))
	case "ite":
		as := args()
		if as[1].K == KFP && as[2].K == KReal {
			as[2] = Val{K: KFP, T: fpTerm(as[2], 64)}
		}
		if as[2].K == KFP && as[1].K == KReal {
			as[1] = Val{K: KFP, T: fpTerm(as[1], 64)}
		}
		r := as[1]
		r.T = ite(as[0].T, x.termOf(as[1]), x.termOf(as[2]))
		if r.K == KPtr {
			bail("ite over pointers unsupported")
		}
		return r
	case "isNaN":
		a := args()[0]
		return specBool(sx("fp.isNaN", fpTerm(a, x.fpWidth(a))))
	case "isInf":
		a := args()[0]
		return specBool(sx("fp.isInfinite", fpTerm(a, x.fpWidth(a))))
	case "bits":
		a := args()[0]
		if a.K != KFloat {
			bail("bits() of non-float")
		}
		return specInt(a.T)
	case "fp":
		a := args()[0]
		w := x.fpWidth(a)
		r := Val{K: KFP, T: fpTerm(a, w)}
		if w == 32 {
			r.Typ = types.Typ[types.Float32]
		}
		return r
	case "tofp64", "tofp32":
		a := args()[0]
		w := 64
		if e.Name == "tofp32" {
			w = 32
		}
		r := Val{K: KFP, T: fpTerm(specInt(a.T), w)}
		if !isLit(a.T) {
			r.T = fpTerm(Val{K: KInt, T: "(+ 0 " + a.T + ")"}, w)
		}
		if w == 32 {
			r.Typ = types.Typ[types.Float32]
		}
		return r
	case "int":
		a := args()[0]
		return specInt(a.T)
	case "wrapi32", "wrapu32", "wrapi64", "wrapu64":
		a := args()[0]
		return specInt(sx(e.Name, a.T))
	case "f32frombits":
		a := args()[0]
		return Val{K: KFP, T: sx("f32", a.T), Typ: types.Typ[types.Float32]}
	case "f64frombits":
		a := args()[0]
		return Val{K: KFP, T: sx("f64", a.T)}
	case "min":
		as := args()
		return specInt(ite(sx("<=", as[0].T, as[1].T), as[0].T, as[1].T))
	case "max":
		as := args()
		return specInt(ite(sx(">=", as[0].T, as[1].T), as[0].T, as[1].T))
	case "abs":
		a := args()[0]
		return specInt(sx("abs", a.T))
	case "iswl":
		a := args()[0]
		return specBool(sx("(_ is ErrWantLarger)", a.T))
	case "wlsize":
		a := args()[0]
		return specInt(sx("wl_size", a.T))
	case "issentinel":
		a := args()[0]
		return specBool(sx("(_ is ErrSentinel)", a.T))
	case "isio":
		a := args()[0]
		return specBool(sx("(_ is ErrIO)", a.T))
	case "isother":
		a := args()[0]
		return specBool(sx("(_ is ErrOther)", a.T))
	case "notexist":
		a := args()[0]
		return specBool(sx("err_notexist", a.T))
	case "ispathne":
		a := args()[0]
		return specBool(sx("(_ is ErrPathNotExist)", a.T))
	case "isfne":
		a := args()[0]
		return specBool(sx("(_ is ErrFileNotExist)", a.T))
	case "fnesd":
		a := args()[0]
		return specInt(sx("fe_sd", a.T))
	case "ishttp":
		a := args()[0]
		return specBool(sx("(_ is ErrHTTP)", a.T))
	case "fresh":
		a := args()[0]
		if env.old == nil {
			bail("fresh() needs a pre-state")
		}
		switch a.K {
		case KPtr:
			return specBool(sx(">", a.Ptr.Root, env.old.top))
		case KSlice:
			return specBool(sx(">", sArr(a.T), env.old.top))
		}
		bail("fresh() of non-reference")
	case "fbyte":
		as := args()
		h := x.heapFor(env, "FB", "(Array Int (Array Int Int))")
		return specInt(sx("select", sx("select", h, x.termOf(as[0])), as[1].T))
	case "fsize":
		as := args()
		h := x.heapFor(env, "FBLEN", "(Array Int Int)")
		return specInt(sx("select", h, x.termOf(as[0])))
	case "dbyte":
		as := args()
		h := x.heapFor(env, "DISK", "(Array Int (Array Int Int))")
		return specInt(sx("select", sx("select", h, x.termOf(as[0])), as[1].T))
	case "dsize":
		as := args()
		h := x.heapFor(env, "DISKLEN", "(Array Int Int)")
		return specInt(sx("select", h, x.termOf(as[0])))
	case "drow":
		as := args()
		h := x.heapFor(env, "DISK", "(Array Int (Array Int Int))")
		return Val{K: KArr, T: sx("select", h, x.termOf(as[0]))}
	case "frow":
		// frow(fb): the byte row (Array Int Int) of a file buffer
		as := args()
		h := x.heapFor(env, "FB", "(Array Int (Array Int Int))")
		return Val{K: KArr, T: sx("select", h, x.termOf(as[0]))}
	case "ghost":
		// ghost(name, key): read of a named ghost map (Array Int Int)
		nm := e.Args[0].Name
		key := x.evalSpec(e.Args[1], env)
		h := x.heapFor(env, "G_"+nm, "(Array Int Int)")
		return specInt(sx("select", h, x.termOf(key)))
	case "entry":
		if e.Args[0].Op != "ident" {
			bail("entry() takes a parameter name")
		}
		v, ok := x.params[e.Args[0].Name]
		if !ok {
			bail("entry(%s): no such parameter", e.Args[0].Name)
		}
		return v
	case "at":
		// at(s, j): element at absolute row index j of the array backing slice s
		as := args()
		a := as[0]
		key, el := x.sliceHeap(a.Typ)
		h := x.heapFor(env, key, x.P.ss.heapSort(el, true))
		return x.mkVal(sx("select", sx("select", h, sArr(a.T)), as[1].T), el)
	case "row":
		// row(s): the backing row (Array Int T) of slice s in the current heap
		a := args()[0]
		key, el := x.sliceHeap(a.Typ)
		h := x.heapFor(env, key, x.P.ss.heapSort(el, true))
		r := Val{K: KArr, T: sx("select", h, sArr(a.T))}
		if x.P.ss.kindOf(el) == KStruct {
			r.Typ = el
		}
		return r
	case "fpeq", "fplt", "fpgt", "fple", "fpge":
		as := args()
		w := x.fpWidth(as[0])
		if w == 0 {
			w = x.fpWidth(as[1])
		}
		if w == 0 {
			w = 64
		}
		op := map[string]string{"fpeq": "fp.eq", "fplt": "fp.lt", "fpgt": "fp.gt", "fple": "fp.leq", "fpge": "fp.geq"}[e.Name]
		return specBool(sx(op, fpTerm(as[0], w), fpTerm(as[1], w)))
	case "prev":
		// prev(x): the value of the local variable x at the start of the current loop iteration (loop invariants, step phase)
		if len(e.Args) != 1 || e.Args[0].Op != "ident" || env.fr == nil || env.fr.curLoop == nil {
			bail("prev(x) expects a local variable name inside a loop invariant")
		}
		head := env.fr.curLoop.Head
		hs := env.fr.headSnap[head]
		if hs == nil {
			// establishing the invariant before the first iteration: there is no previous iteration
			return x.evalSpec(e.Args[0], env)
		}
		name := x.P.localAlias(env.fr.fn, e.Args[0].Name)
		for ph, v := range env.fr.headPhi[head] {
			if ph.Comment == name {
				return v
			}
		}
		if al := allocNamed(env.fr, name); al != nil {
			if pv, ok := env.fr.vals[al]; ok && pv.K == KPtr && pv.Ptr != nil {
				if pv.Ptr.Local != nil {
					if v, ok := env.fr.headCells[head][pv.Ptr.Local]; ok && len(pv.Ptr.Path) == 0 {
						return v
					}
				} else {
					return x.specLoad(&Env{st: env.st, vars: env.vars, old: hs, useOld: true, pkg: env.pkg}, pv.Ptr)
				}
			}
		}
		for _, b := range env.fr.fn.Blocks {
			for _, in := range b.Instrs {
				dr, ok := in.(*ssa.DebugRef)
				if !ok || !dr.IsAddr || dr.Object() == nil || dr.Object().Name() != name {
					continue
				}
				if pv, ok := env.fr.vals[dr.X]; ok && pv.K == KPtr && pv.Ptr != nil {
					if pv.Ptr.Local != nil {
						if v, ok := env.fr.headCells[head][pv.Ptr.Local]; ok && len(pv.Ptr.Path) == 0 {
							return v
						}
						continue
					}
					return x.specLoad(&Env{st: env.st, vars: env.vars, old: hs, useOld: true, pkg: env.pkg}, pv.Ptr)
				}
			}
		}
		bail("prev(%s): not a loop-carried or address-taken local", name)
	case "calledInIter":
		// calledInIter(f): f was called since the start of the current loop iteration (loop invariants, step phase)
		if len(e.Args) != 1 || env.fr == nil || env.fr.curLoop == nil {
			bail("calledInIter(f) expects a function name inside a loop invariant")
		}
		hc, ok := env.fr.headCalls[env.fr.curLoop.Head]
		if !ok {
			return specBool("false")
		}
		k := "ncalls:" + calleeName(e.Args[0])
		if env.st.ghost[k] != hc[k] {
			return specBool("true")
		}
		return specBool("false")
	case "called":
		// called(f): the function under verification called f (directly) on this path
		if len(e.Args) != 1 {
			bail("called(f) expects a function name")
		}
		if os.Getenv("GOWP_LINT_CALLED") != "" && x.argTypeByName(calleeName(e.Args[0]), "0") == nil && x.resultTypeByName(calleeName(e.Args[0]), "0") == nil {
			x.note("LINT called(" + calleeName(e.Args[0]) + "): no direct call of that name in the function")
		}
		if env.st.ghost["called:"+calleeName(e.Args[0])] == "true" {
			return specBool("true")
		}
		return specBool("false")
	case "callarg":
		// callarg(f, i): argument i (receiver first) of the latest direct call of f on this path
		if len(e.Args) != 2 {
			bail("callarg(f, i) expects a function name and an argument index")
		}
		av, ok := env.st.callVals["arg:"+calleeName(e.Args[0])+":"+e.Args[1].String()]
		if !ok {
			// no such call on this path: an arbitrary value of the argument's type (guard with called/calledInIter); never skips the clause
			if at := x.argTypeByName(calleeName(e.Args[0]), e.Args[1].String()); at != nil && !isErrorType(at) {
				return x.freshVal(env.st, "nocallarg", at)
			}
			bail("unknown identifier: callarg(%s, %s): no such call on this path", calleeName(e.Args[0]), e.Args[1].String())
		}
		return av
	case "callret":
		// callret(f, i): result i of the latest direct call of f on this path (errors, integers, booleans)
		if len(e.Args) != 2 {
			bail("callret(f, i) expects a function name and a result index")
		}
		nm, idx := calleeName(e.Args[0]), e.Args[1].String()
		v, ok := env.st.callVals[nm+":"+idx]
		if !ok {
			// no such call on this path: an arbitrary value of the result's type (guard with called(f)); never skips the clause
			if rt := x.resultTypeByName(nm, idx); rt != nil && !isErrorType(rt) {
				return x.freshVal(env.st, "nocall", rt)
			}
			n := x.freshName("nocall")
			env.st.declare(n, "Err")
			return Val{K: KErr, T: n, Typ: types.Universe.Lookup("error").Type()}
		}
		return v
	case "egerr":
		// egerr(g): the first error returned by a worker of errgroup g so far (nil if none)
		h := x.heapFor(env, "G_egerr", "(Array Int Err)")
		if e.Args[0].Op == "ident" && env.fr != nil {
			if root, ok := x.addrOfLocal(env.fr, e.Args[0].Name); ok {
				return Val{K: KErr, T: sx("select", h, root), Typ: types.Universe.Lookup("error").Type()}
			}
		}
		a := args()[0]
		return Val{K: KErr, T: sx("select", h, x.termOf(a)), Typ: types.Universe.Lookup("error").Type()}
	case "cbran":
		// cbran(f): the callback parameter f was called on this path
		if env.st.ghost["cbran:"+e.Args[0].Name] == "true" {
			return specBool("true")
		}
		return specBool("false")
	case "cbret":
		if t, ok := env.st.ghost["cbret:"+e.Args[0].Name]; ok {
			return Val{K: KErr, T: t, Typ: types.Universe.Lookup("error").Type()}
		}
		return Val{K: KErr, T: "ErrNil", Typ: types.Universe.Lookup("error").Type()}
	case "mention":
		// mention(e): true; places the term e in the obligation so that ground definitions unfold at it
		a := args()[0]
		return specBool(sx("=", x.termOf(a), x.termOf(a)))
	case "fpconst":
		a := args()[0]
		return Val{K: KFP, T: fpTerm(a, 64)}
	}
	if sf, ok := x.P.specs.SpecFns[e.Name]; ok {
		return x.evalSpecFn(sf, e, env)
	}
	bail("unknown function %q in specification", e.Name)
	return Val{}
}

func (x *Exec) evalSpecFn(sf *SpecFunc, e *Expr, env *Env) Val {
	if len(e.Args) != len(sf.Params) {
		bail("spec function %s: wrong number of arguments", sf.Name)
	}
	if env.depth > 40 {
		bail("spec function expansion too deep (recursive macro?) at %s", sf.Name)
	}
	n := &Env{st: env.st, vars: map[string]Val{}, old: env.old, useOld: env.useOld, pkg: sf.Pkg, depth: env.depth + 1}
	if sf.Rec || sf.Opaque {
		var ts []string
		for _, a := range e.Args {
			ts = append(ts, x.termOf(x.evalSpec(a, env)))
		}
		x.P.usedRec[sf.Name] = true
		x.P.ensureRecDef(sf)
		x.P.mu.Lock()
		hks := append([]heapParam(nil), x.P.recHeapKeys[sf.Name]...)
		x.P.mu.Unlock()
		for _, hk := range hks {
			ts = append(ts, x.heapFor(env, hk.key, hk.sort))
		}
		r := sx(sf.Name, ts...)
		if len(ts) == 0 {
			r = sf.Name
		}
		if len(hks) > 0 && env.st != nil && strings.HasPrefix(env.st.top, "top_") {
			// remember the allocator top at which this heap version was first read by sf (reads framing)
			top := env.st.top
			if env.useOld && env.old != nil {
				top = env.old.top
			}
			key := sf.Name + " " + strings.Join(ts[len(e.Args):], " ")
			x.P.mu.Lock()
			if x.P.tupleTop == nil {
				x.P.tupleTop = map[string]string{}
			}
			if _, ok := x.P.tupleTop[key]; !ok {
				x.P.tupleTop[key] = top
			}
			x.P.mu.Unlock()
		}
		switch sf.RetType {
		case "bool":
			return specBool(r)
		case "fp64":
			return Val{K: KFP, T: r}
		default:
			return specInt(r)
		}
	}
	for i, p := range sf.Params {
		n.vars[p.Name] = x.evalSpec(e.Args[i], env)
	}
	return x.evalSpec(sf.Body, n)
}

var _ = math.MaxInt32

// choosePatterns selects e-matching triggers for a quantifier body: array reads whose
// index mentions a bound variable, grouped by row. Reads of the same row at several
// indices (a[j], a[j+1]) form ONE multi-pattern (no matching loop); reads of different
// rows are alternative patterns.
func choosePatterns(body string, bound []string) string {
	type sel struct{ term, row string }
	var sels []sel
	seen := map[string]bool{}
	mentions := func(s string) map[string]bool {
		m := map[string]bool{}
		for _, b := range bound {
			if containsSym(s, b) {
				m[b] = true
			}
		}
		return m
	}
	var walk func(t string, underBinder bool)
	walk = func(t string, underBinder bool) {
		parts := splitSexp(t)
		if parts == nil {
			return
		}
		if parts[0] == "forall" || parts[0] == "exists" {
			return // do not take terms mentioning inner bound variables
		}
		if parts[0] == "select" && len(parts) == 3 {
			if len(mentions(parts[2])) > 0 && len(mentions(parts[1])) == 0 {
				if !seen[t] {
					seen[t] = true
					sels = append(sels, sel{t, parts[1]})
				}
				return
			}
		}
		for _, p := range parts[1:] {
			walk(p, underBinder)
		}
	}
	walk(body, false)
	if len(sels) == 0 {
		return ""
	}
	groups := map[string][]string{}
	var order []string
	for _, s := range sels {
		if _, ok := groups[s.row]; !ok {
			order = append(order, s.row)
		}
		groups[s.row] = append(groups[s.row], s.term)
	}
	var pats []string
	for _, r := range order {
		cov := map[string]bool{}
		for _, t := range groups[r] {
			for b := range mentions(t) {
				cov[b] = true
			}
		}
		if len(cov) == len(bound) {
			pats = append(pats, ":pattern ("+strings.Join(groups[r], " ")+")")
		}
	}
	if len(pats) == 0 {
		var all []string
		cov := map[string]bool{}
		for _, s := range sels {
			all = append(all, s.term)
			for b := range mentions(s.term) {
				cov[b] = true
			}
		}
		if len(cov) != len(bound) {
			return ""
		}
		return ":pattern (" + strings.Join(all, " ") + ")"
	}
	return strings.Join(pats, " ")
}

func containsSym(s, sym string) bool {
	for i := 0; ; {
		j := strings.Index(s[i:], sym)
		if j < 0 {
			return false
		}
		j += i
		end := j + len(sym)
		okL := j == 0 || s[j-1] == ' ' || s[j-1] == '('
		okR := end == len(s) || s[end] == ' ' || s[end] == ')'
		if okL && okR {
			return true
		}
		i = j + 1
	}
}

// addrOfLocal: the root of the heap object holding the named local variable (a variable whose address is taken).
func (x *Exec) addrOfLocal(fr *Frame, name string) (string, bool) {
	name = x.P.localAlias(fr.fn, name)
	for _, b := range fr.fn.Blocks {
		for _, in := range b.Instrs {
			dr, ok := in.(*ssa.DebugRef)
			if !ok || !dr.IsAddr || dr.Object() == nil || dr.Object().Name() != name {
				continue
			}
			if v, ok := fr.vals[dr.X]; ok && v.K == KPtr && v.Ptr != nil && v.Ptr.Root != "" {
				return v.Ptr.Root, true
			}
		}
	}
	return "", false
}

// calleeName: called(f) / callret(f, i) name a function by identifier or, for methods, by string ("(*Whisper).Sync").
func calleeName(e *Expr) string {
	if e.Op == "str" {
		return strings.Trim(e.Name, "\"`")
	}
	return e.String()
}

// resultTypeByName: the type of result idx of the function called under this name somewhere in the function under verification.
// argTypeByName is the static type of argument idx (receiver first) of a direct call of name in the function under verification.
func (x *Exec) argTypeByName(name, idx string) types.Type {
	if x.fn == nil {
		return nil
	}
	var i int
	fmt.Sscanf(idx, "%d", &i)
	var found types.Type
	var scan func(f *ssa.Function)
	scan = func(f *ssa.Function) {
		for _, b := range f.Blocks {
			for _, in := range b.Instrs {
				ci, ok := in.(ssa.CallInstruction)
				if !ok {
					continue
				}
				cal := ci.Common().StaticCallee()
				if cal == nil || funcName(cal) != name {
					continue
				}
				if i < len(ci.Common().Args) {
					found = ci.Common().Args[i].Type()
				}
			}
		}
		for _, af := range f.AnonFuncs {
			scan(af)
		}
	}
	scan(x.fn)
	return found
}

func (x *Exec) resultTypeByName(name, idx string) types.Type {
	if x.fn == nil {
		return nil
	}
	var i int
	fmt.Sscanf(idx, "%d", &i)
	var found types.Type
	var scan func(f *ssa.Function)
	scan = func(f *ssa.Function) {
		for _, b := range f.Blocks {
			for _, in := range b.Instrs {
				ci, ok := in.(ssa.CallInstruction)
				if !ok {
					continue
				}
				cal := ci.Common().StaticCallee()
				if cal == nil || funcName(cal) != name {
					continue
				}
				res := cal.Signature.Results()
				if i < res.Len() {
					found = res.At(i).Type()
				}
			}
		}
		for _, af := range f.AnonFuncs {
			scan(af)
		}
	}
	scan(x.fn)
	return found
}
