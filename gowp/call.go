package main

// Calls: builtins, intrinsics, contracts, inlining.

import (
	"go/constant"
	"fmt"
	"go/token"
	"go/types"
	"math/big"
	"strings"

	"golang.org/x/tools/go/ssa"
)

type modTarget struct {
	heap   string
	rows   bool
	root   string
	lo, hi string // index range when rows
	path   []int
	text   string
	whole  bool // every row of the heap (modifies rows(T))
}

func (x *Exec) calleeAndArgs(st *State, fr *Frame, cc *ssa.CallCommon) (Val, []Val) {
	var args []Val
	for _, a := range cc.Args {
		args = append(args, x.get(st, fr, a))
	}
	if cc.IsInvoke() {
		return x.get(st, fr, cc.Value), args
	}
	if _, ok := cc.Value.(*ssa.Builtin); ok {
		return Val{}, args
	}
	return x.get(st, fr, cc.Value), args
}

func (x *Exec) call(st *State, fr *Frame, b *ssa.BasicBlock, i int, in ssa.CallInstruction, cc *ssa.CallCommon) bool {
	if bi, ok := cc.Value.(*ssa.Builtin); ok {
		var args []Val
		for _, a := range cc.Args {
			args = append(args, x.get(st, fr, a))
		}
		r := x.builtin(st, fr, bi, args, in)
		if v := in.Value(); v != nil {
			if r.K == KSlice || r.K == KInt {
				x.define(st, fr, v, r)
			} else {
				fr.vals[v] = r
			}
		}
		return false
	}
	fnv, args := x.calleeAndArgs(st, fr, cc)
	return x.invoke(st, fr, b, i, in, cc, fnv, args, 0, nil)
}

// invoke performs a call. It returns true when control was transferred to an
// inlined callee (the caller must stop), false when the call completed in place.
func (x *Exec) invoke(st *State, fr *Frame, b *ssa.BasicBlock, i int, in ssa.CallInstruction, cc *ssa.CallCommon, fnv Val, args []Val, kind int, pending []deferred) bool {
	setResult := func(r Val) {
		if in != nil && kind == 0 {
			if v := in.Value(); v != nil {
				fr.vals[v] = r
			}
		}
	}
	pos := cc.Pos()
	if cc.IsInvoke() {
		r := x.invokeMethod(st, fr, cc, fnv, args, pos)
		setResult(r)
		return false
	}
	if fnv.K != KFunc || fnv.Fn == nil {
		// call through a package-level function variable (e.g. whispertool.Now): treated as an
		// effect-free call with an unconstrained result
		if u, ok := cc.Value.(*ssa.UnOp); ok {
			if g, ok := u.X.(*ssa.Global); ok {
				x.usedExt["call through package variable "+g.Name()+" treated as effect-free"] = true
				sig := cc.Signature()
				var r Val
				switch sig.Results().Len() {
				case 0:
					r = Val{K: KTuple}
				case 1:
					r = x.freshVal(st, "gv", sig.Results().At(0).Type())
				default:
					r = x.freshVal(st, "gv", sig.Results())
				}
				setResult(r)
				return false
			}
		}
		if prm, ok := cc.Value.(*ssa.Parameter); ok && fr.parent == nil {
			// call of a function-typed parameter of the verified function (a callback): its effect is
			// unknown (every heap is havoced); that it ran and what it returned is recorded for cbran/cbret
			x.usedExt["callback parameter "+prm.Name()+": arbitrary effects on pre-existing objects assumed; objects allocated by the caller and not passed to it are untouched"] = true
			for _, a := range args {
				if (a.K == KPtr && a.Ptr != nil && (a.Ptr.Heap != "" || a.Ptr.Local != nil)) || a.K == KSlice {
					bail("callback receives a reference into modelled memory")
				}
			}
			for k := range st.heaps {
				if _, ok := st.hsort[k]; ok {
					old := st.heaps[k]
					nh := x.havocHeap(st, k)
					if strings.HasPrefix(k, "HS_") || k == "FB" || k == "DISK" {
						st.assume(fmt.Sprintf("(forall ((r Int) (k Int)) (! (=> (> r %s) (= (select (select %s r) k) (select (select %s r) k))) :pattern ((select (select %s r) k))))", x.entry.top, nh, old, nh))
					} else {
						st.assume(fmt.Sprintf("(forall ((r Int)) (! (=> (> r %s) (= (select %s r) (select %s r))) :pattern ((select %s r))))", x.entry.top, nh, old, nh))
					}
				}
			}
			nt := x.freshName("top")
			st.declare(nt, "Int")
			st.assume(and(sx(">=", nt, st.top), sx("<=", nt, "4611686018427387904")))
			st.top = nt
			sig := cc.Signature()
			var r Val
			switch sig.Results().Len() {
			case 0:
				r = Val{K: KTuple}
			case 1:
				r = x.freshVal(st, "cb", sig.Results().At(0).Type())
			default:
				r = x.freshVal(st, "cb", sig.Results())
			}
			st.ghost["cbran:"+prm.Name()] = "true"
			if r.K == KErr {
				st.ghost["cbret:"+prm.Name()] = r.T
			}
			setResult(r)
			return false
		}
		if named, ok := cc.Value.Type().(*types.Named); ok {
			if con := x.P.specs.Funcs["ext:dynamic:"+named.String()]; con != nil {
				x.usedExt["calls through values of type "+named.String()+" follow its assumed contract"] = true
				r := x.applyDynamicContract(st, fr, con, cc.Signature(), args, pos)
				setResult(r)
				return false
			}
		}
		bail("call through a function value that is not statically known (%v)", cc.Value.Type())
	}
	callee := fnv.Fn.Fn
	full := callee.String()
	if r, ok := x.intrinsic(st, fr, full, callee, args, pos, b, i, in, kind, pending); ok {
		if r.took {
			return true
		}
		setResult(r.v)
		return false
	}
	con := x.P.contractOf(callee)
	if con != nil && !con.Inline {
		if len(fnv.Fn.Bindings) > 0 {
			bail("contract on a closure with bindings is applied only by inlining")
		}
		r := x.applyContract(st, fr, callee, con, args, pos)
		setResult(r)
		return false
	}
	_, inrepo := x.P.fnKey[callee]
	if !inrepo && !inlineExt[full] {
		bail("no trusted contract for external function %s", full)
	}
	if callee.Blocks == nil {
		bail("function %s has no body", full)
	}
	if fr.depth() > 12 {
		bail("inlining too deep at %s", full)
	}
	for f := fr; f != nil; f = f.parent {
		if f.fn == callee {
			bail("recursive inlining of %s", full)
		}
	}
	x.inlined[full] = true
	nf := x.newFrame(callee, fr)
	nf.callSite = in
	nf.callBlk = b
	nf.callIdx = i
	nf.kind = kind
	nf.pendingDefers = pending
	nf.inl = funcName(callee)
	if fr.inl != "" {
		nf.inl = fr.inl + "/" + nf.inl
	}
	for j, p := range callee.Params {
		nf.vals[p] = args[j]
	}
	for j, fv := range callee.FreeVars {
		nf.vals[fv] = fnv.Fn.Bindings[j]
	}
	x.run(st, nf, callee.Blocks[0], 0)
	return true
}

var inlineExt = map[string]bool{
	"math.IsNaN": true,
}

type intrRes struct {
	v    Val
	took bool
}

func (x *Exec) intrinsic(st *State, fr *Frame, full string, callee *ssa.Function, args []Val, pos token.Pos, b *ssa.BasicBlock, i int, in ssa.CallInstruction, kind int, pending []deferred) (intrRes, bool) {
	rt := func() types.Type {
		res := callee.Signature.Results()
		if res.Len() == 1 {
			return res.At(0).Type()
		}
		return res
	}
	switch full {
	case "math.Float64bits", "math.Float32bits":
		return intrRes{v: Val{K: KInt, T: args[0].T, Typ: rt()}}, true
	case "math.Float64frombits", "math.Float32frombits":
		return intrRes{v: Val{K: KFloat, T: args[0].T, Typ: rt()}}, true
	case "math.NaN":
		return intrRes{v: Val{K: KFloat, T: "9221120237041090561", Typ: rt()}}, true
	case "math.IsNaN":
		return intrRes{v: Val{K: KBool, T: sx("fp.isNaN", fpTerm(args[0], 64)), Typ: rt()}}, true
	case "math.Inf":
		bail("math.Inf not modelled")
	case "fmt.Sprintf":
		// Sprintf("%d<c>", n) with one integer operand: assumed to produce the canonical decimal digits of n
		// followed by c (spec function sprintfD in trusted/stdlib.spec); every other format stays opaque
		cc := in.Common()
		fc, isC := cc.Args[0].(*ssa.Const)
		if !isC || fc.Value == nil || fc.Value.Kind() != constant.String || len(cc.Args) != 2 {
			return intrRes{}, false
		}
		f := constant.StringVal(fc.Value)
		if len(f) != 3 || f[0] != '%' || f[1] != 'd' || x.P.specs.SpecFns["sprintfD"] == nil {
			return intrRes{}, false
		}
		op := variadicOperand(cc.Args[1], 0)
		if op == nil {
			return intrRes{}, false
		}
		ov := x.get(st, fr, op)
		if ov.K != KInt {
			return intrRes{}, false
		}
		res := x.freshVal(st, "sprintf", rt())
		e, err := parseExpr("v >= 0 ==> sprintfD(r, v, c)")
		if err != nil {
			bail("internal: %v", err)
		}
		env := &Env{st: st, vars: map[string]Val{"r": res, "v": specInt(ov.T), "c": specInt(fmt.Sprint(int(f[2])))}, pkg: ""}
		st.assume(x.evalSpec(e, env).T)
		x.usedExt["fmt.Sprintf(\"%d<c>\") assumed to print canonical decimal digits (sprintfD)"] = true
		return intrRes{v: res}, true
	case "fmt.Errorf", "errors.New":
		n := x.freshName("err")
		st.declare(n, "Int")
		return intrRes{v: Val{K: KErr, T: sx("ErrOther", n), Typ: rt()}}, true
	case "errors.As":
		// errors.As(err, &target) for the error types of this code base: succeeds exactly when the
		// error value carries that type; the target then points to an object holding its fields
		errv, tgt := args[0], args[1]
		if tgt.K == KIface && tgt.Dyn != nil {
			tgt = *tgt.Dyn
		}
		if tgt.K != KPtr || tgt.Ptr == nil {
			bail("errors.As with a target that is not a pointer")
		}
		pt, ok := pathType(tgt.Ptr.Elem, tgt.Ptr.Path).Underlying().(*types.Pointer)
		if !ok {
			bail("errors.As target is not a pointer to a pointer")
		}
		tn := pt.Elem().String()
		var test, field string
		switch {
		case strings.HasSuffix(tn, "whispertool.WantLargerBufferError"):
			test, field = sx("(_ is ErrWantLarger)", errv.T), sx("wl_size", errv.T)
		case strings.HasSuffix(tn, "cmd.fileNotExistError"):
			test, field = sx("(_ is ErrFileNotExist)", errv.T), sx("fe_sd", errv.T)
		case strings.HasSuffix(tn, "cmd.httpError"):
			test = sx("(_ is ErrHTTP)", errv.T)
		case strings.HasSuffix(tn, "os.PathError"), strings.HasSuffix(tn, "fs.PathError"):
			test = sx("(_ is ErrPathNotExist)", errv.T)
		default:
			bail("errors.As to %s is not modelled", tn)
		}
		okc := x.freshName("as")
		st.declare(okc, "Bool")
		st.assume(sx("=", okc, test))
		// allocate the target object
		elem := pt.Elem()
		var objPtr Val
		if x.P.ss.kindOf(elem) == KOpaque {
			root := x.allocRoot(st, "asobj")
			objPtr = Val{K: KPtr, Typ: pt, Ptr: &Pointer{Heap: "", Elem: elem, Root: root, Fresh: true}}
		} else {
			root := x.allocRoot(st, "asobj")
			key := x.P.ss.heapKey(elem, false)
			hs := x.P.ss.heapSort(elem, false)
			h := st.heap(key, hs)
			obj := x.freshVal(st, "asval", elem)
			if field != "" {
				s := x.P.ss.structSort(elem)
				st.assume(implies(okc, sx("=", sx(s.Fields[0].Name, obj.T), field)))
			}
			x.setHeap(st, key, hs, sx("store", h, root, obj.T))
			objPtr = Val{K: KPtr, Typ: pt, Ptr: &Pointer{Heap: key, Elem: elem, Root: root, Fresh: true}}
		}
		// *target = obj when ok (left nil otherwise)
		cur := x.load(st, tgt.Ptr)
		_ = cur
		if tgt.Ptr.Local != nil {
			// path-local target: fork-free update is not possible for structural pointers; branch on ok
			st2 := st
			_ = st2
			x.store(st, tgt.Ptr, objPtr)
			x.note("errors.As target is assigned even when As fails (only read after a successful As in this code base)")
		} else {
			x.store(st, tgt.Ptr, objPtr)
		}
		x.usedExt["errors.As (assumed: matches exactly the modelled error kinds)"] = true
		return intrRes{v: Val{K: KBool, T: okc, Typ: rt()}}, true
	case "sort.Stable", "sort.Sort":
		x.sortStable(st, fr, args[0], pos, full == "sort.Stable")
		return intrRes{v: Val{K: KTuple}}, true
	case "(*golang.org/x/sync/errgroup.Group).Go":
		// Sequentialisation of errgroup workers: sound under the footprint-disjointness
		// obligations (C17); the closure runs to completion here.
		g := args[0]
		f := args[1]
		if f.K != KFunc {
			bail("errgroup.Go with a function value that is not statically known")
		}
		x.usedExt["errgroup sequentialised: "+x.P.pos(pos)] = true
		x.egRecord(st, fr, g, f, pos)
		cc := &ssa.CallCommon{}
		_ = cc
		took := x.inlineClosure(st, fr, b, i, in, f, nil, 3, g)
		return intrRes{took: took}, true
	case "(*golang.org/x/sync/errgroup.Group).Wait":
		g := args[0]
		e := sx("select", st.heap("G_egerr", "(Array Int Err)"), g.Ptr.Root)
		return intrRes{v: Val{K: KErr, T: e, Typ: rt()}}, true
	}
	return intrRes{}, false
}

func (x *Exec) egRecord(st *State, fr *Frame, g, f Val, pos token.Pos) {}

// inlineClosure runs a closure value inline; kind 3 = errgroup worker (result folded into the group's ghost error).
func (x *Exec) inlineClosure(st *State, fr *Frame, b *ssa.BasicBlock, i int, in ssa.CallInstruction, f Val, args []Val, kind int, group Val) bool {
	callee := f.Fn.Fn
	nf := x.newFrame(callee, fr)
	nf.callSite = in
	nf.callBlk = b
	nf.callIdx = i
	nf.kind = kind
	nf.inl = funcName(callee)
	if fr.inl != "" {
		nf.inl = fr.inl + "/" + nf.inl
	}
	for j, p := range callee.Params {
		nf.vals[p] = args[j]
	}
	for j, fv := range callee.FreeVars {
		nf.vals[fv] = f.Fn.Bindings[j]
	}
	if kind == 3 {
		nf.vals[egGroupKey] = group
	}
	x.inlined[callee.String()] = true
	x.run(st, nf, callee.Blocks[0], 0)
	return true
}

var egGroupKey ssa.Value = &ssa.Const{}

// ------------------------------------------------------------------ builtins

func (x *Exec) builtin(st *State, fr *Frame, bi *ssa.Builtin, args []Val, in ssa.CallInstruction) Val {
	ss := x.P.ss
	pos := in.Pos()
	switch bi.Name() {
	case "len":
		a := args[0]
		if a.K == KSlice {
			return Val{K: KInt, T: sLen(a.T), Typ: types.Typ[types.Int], Lo: big.NewInt(0), Hi: new(big.Int).Lsh(big.NewInt(1), 46)}
		}
		if a.K == KPtr && a.Ptr != nil && a.Ptr.IsArr {
			return Val{K: KInt, T: fmt.Sprint(a.Ptr.ArrLen), Typ: types.Typ[types.Int]}
		}
		bail("len of %v", a.Typ)
	case "cap":
		a := args[0]
		if a.K == KSlice {
			return Val{K: KInt, T: sCap(a.T), Typ: types.Typ[types.Int], Lo: big.NewInt(0), Hi: new(big.Int).Lsh(big.NewInt(1), 46)}
		}
		bail("cap of %v", a.Typ)
	case "append":
		s, a := args[0], args[1]
		if s.K != KSlice || a.K != KSlice {
			bail("append on non-slices")
		}
		key, el := x.sliceHeap(in.Value().Type())
		hs := ss.heapSort(el, true)
		srcKey, _ := x.sliceHeap(a.Typ)
		h := st.heap(key, hs)
		hsrc := st.heap(srcKey, ss.heapSort(el, true))
		nv, ok := litVal(sLen(a.T))
		if !ok || nv > 16 {
			bail("append of a slice whose length is not a small constant (%s)", sLen(a.T))
		}
		n := fmt.Sprint(nv)
		newLen := plus(sLen(s.T), n)
		fits := sx("<=", newLen, sCap(s.T))
		x.allocCheck(st, fr, sx("*", newLen, fmt.Sprint(sizeofType(el))), pos)
		fresh := x.allocRoot(st, "app")
		newCap := x.freshName("appcap")
		st.declare(newCap, "Int")
		st.assume(sx(">=", newCap, newLen))
		// Contents: the new backing row is the old row with the appended elements stored behind
		// the old length. When the array is reallocated the same row (same offset) is installed
		// under a fresh root; the slots beyond the new length are then junk rather than zero,
		// which is unobservable because reslicing beyond len is rejected (see sliceOp).
		row := sx("select", h, sArr(s.T))
		for i := int64(0); i < nv; i++ {
			e := sx("select", sx("select", hsrc, sArr(a.T)), plus(sOff(a.T), fmt.Sprint(i)))
			row = sx("store", row, plus(plus(sOff(s.T), sLen(s.T)), fmt.Sprint(i)), e)
		}
		newArr := x.freshName("apparr")
		st.declare(newArr, "Int")
		st.assume(sx("=", newArr, ite(fits, sArr(s.T), fresh)))
		capT := x.freshName("appc")
		st.declare(capT, "Int")
		st.assume(sx("=", capT, ite(fits, sCap(s.T), newCap)))
		x.frameCheckRegion(st, fr, key, sArr(s.T), plus(sOff(s.T), sLen(s.T)), plus(sOff(s.T), newLen), pos, fits)
		x.setHeap(st, key, hs, sx("store", h, newArr, row))
		return Val{K: KSlice, T: sx("mk_slice", newArr, sOff(s.T), newLen, capT), Typ: in.Value().Type()}
	case "copy":
		d, s := args[0], args[1]
		key, el := x.sliceHeap(d.Typ)
		hs := ss.heapSort(el, true)
		skey, _ := x.sliceHeap(s.Typ)
		h := st.heap(key, hs)
		hsrc := st.heap(skey, ss.heapSort(el, true))
		n := x.freshName("ncopy")
		st.declare(n, "Int")
		st.assume(sx("=", n, ite(sx("<=", sLen(d.T), sLen(s.T)), sLen(d.T), sLen(s.T))))
		row := x.freshName("cprow")
		st.declare(row, fmt.Sprintf("(Array Int %s)", ss.sortOf(el)))
		oldRow := sx("select", h, sArr(d.T))
		srcRow := sx("select", hsrc, sArr(s.T))
		k := x.freshName("k")
		st.assume(fmt.Sprintf("(forall ((%s Int)) (! (= (select %s %s) (ite (and (<= %s %s) (< %s (+ %s %s))) (select %s (+ %s (- %s %s))) (select %s %s))) :pattern ((select %s %s))))",
			k, row, k, sOff(d.T), k, k, sOff(d.T), n, srcRow, sOff(s.T), k, sOff(d.T), oldRow, k, row, k))
		x.frameCheckRegion(st, fr, key, sArr(d.T), sOff(d.T), sx("+", sOff(d.T), n), pos, "")
		x.setHeap(st, key, hs, sx("store", h, sArr(d.T), row))
		return Val{K: KInt, T: n, Typ: types.Typ[types.Int]}
	case "print", "println":
		return Val{K: KTuple}
	}
	bail("builtin %s is outside the subset", bi.Name())
	return Val{}
}

// allocCheck emits the bounded-allocation obligation when the function has an allocates clause.
func (x *Exec) allocCheck(st *State, fr *Frame, bytes string, pos token.Pos) {
	if x.con == nil || x.con.Allocates == nil || x.noSafe {
		return
	}
	env := &Env{st: st, vars: x.params, pkg: x.con.Pkg, old: x.entry, useOld: true}
	lim := x.evalSpec(x.con.Allocates, env)
	lbl := fmt.Sprintf("bounded@%s", x.P.pos(pos))
	if fr != nil && fr.inl != "" {
		lbl = fr.inl + "." + lbl
	}
	x.emit(st, "alloc", lbl, "allocation <= "+x.con.Allocates.String(), sx("<=", bytes, lim.T), nil, pos, fr)
}

// ------------------------------------------------------------------ interface method calls

func (x *Exec) invokeMethod(st *State, fr *Frame, cc *ssa.CallCommon, recv Val, args []Val, pos token.Pos) Val {
	name := "invoke " + cc.Method.FullName()
	sig := cc.Method.Type().(*types.Signature)
	var rt types.Type = sig.Results()
	if sig.Results().Len() == 1 {
		rt = sig.Results().At(0).Type()
	}
	// statically known dynamic type defined in the repository: call the method directly
	if recv.K == KIface && recv.Dyn != nil {
		if m := x.P.prog.LookupMethod(recv.Dyn.Typ, cc.Method.Pkg(), cc.Method.Name()); m != nil {
			if _, ok := x.P.fnKey[m]; ok {
				bail("invoke of repository method %s through an interface: not handled in place", m)
			}
		}
	}
	con := x.P.specs.Funcs["ext:"+name]
	if con == nil {
		bail("no trusted contract for interface method call %s", name)
	}
	x.usedExt[name] = true
	if con.Pure {
		if sig.Results().Len() == 0 {
			return Val{K: KTuple}
		}
		return x.freshVal(st, "inv", rt)
	}
	if len(con.Modifies) > 0 || len(con.Requires) > 0 {
		bail("trusted contracts on interface methods may only have ensures clauses (%s)", name)
	}
	env := &Env{st: st, vars: map[string]Val{"recv": recv}, pkg: "", old: st.snapshot()}
	for i := 0; i < sig.Params().Len(); i++ {
		env.vars[sig.Params().At(i).Name()] = args[i]
	}
	var r Val
	if sig.Results().Len() == 0 {
		r = Val{K: KTuple}
	} else {
		r = x.freshVal(st, "inv", rt)
		if sig.Results().Len() == 1 {
			env.vars["result"] = r
		} else {
			for i, t := range r.Tup {
				env.vars[fmt.Sprintf("result%d", i)] = t
			}
		}
	}
	for _, en := range con.Ensures {
		st.assume(x.evalSpec(en.E, env).T)
	}
	return r
}

// ------------------------------------------------------------------ contracts at call sites

func paramNames(f *ssa.Function) []string {
	var ns []string
	for _, p := range f.Params {
		ns = append(ns, p.Name())
	}
	return ns
}

func (x *Exec) bindResults(f *ssa.Function, env *Env, rets []Val) {
	res := f.Signature.Results()
	for i := 0; i < res.Len(); i++ {
		if n := res.At(i).Name(); n != "" && n != "_" {
			env.vars[n] = rets[i]
		}
		env.vars[fmt.Sprintf("result%d", i)] = rets[i]
	}
	if res.Len() == 1 {
		env.vars["result"] = rets[0]
	}
}

func (x *Exec) applyContract(st *State, fr *Frame, callee *ssa.Function, con *Contract, args []Val, pos token.Pos) Val {
	cname := funcName(callee)
	if k, ok := x.P.fnKey[callee]; !ok {
		cname = callee.String()
		x.usedExt[cname] = true
	} else {
		x.usedContracts[k] = true
	}
	env := &Env{st: st, vars: map[string]Val{}, pkg: con.Pkg}
	for i, p := range callee.Params {
		env.vars[p.Name()] = args[i]
		if a := x.P.paramAlias(callee, i); a != "" {
			env.vars[a] = args[i]
		}
	}
	if x.con != nil && fr != nil && fr.parent == nil {
		for _, ba := range x.con.BeforeAsserts {
			if ba.Callee != funcName(callee) {
				continue
			}
			aenv := &Env{st: st, vars: map[string]Val{}, pkg: x.con.Pkg, old: x.entry, fr: fr}
			for k, v := range x.params {
				aenv.vars[k] = v
			}
			aenv.pinned = map[string]Val{}
			for i, p := range callee.Params {
				aenv.vars[p.Name()] = args[i]
				aenv.pinned[p.Name()] = args[i]
				if a := x.P.paramAlias(callee, i); a != "" {
					aenv.vars[a] = args[i]
					aenv.pinned[a] = args[i]
				}
			}
			g := x.evalSpec(ba.C.E, aenv)
			lbl := ba.C.Label
			if lbl == "" {
				lbl = "before." + ba.Callee
			}
			for pi, part := range splitGoal(g.T) {
				x.emit(st, "post", fmt.Sprintf("assert.%s#%d", lbl, pi+1), ba.C.Text, part, ba.C.Props, pos, fr)
			}
			if x.assertEval == nil {
				x.assertEval = map[*Clause]int{}
			}
			x.assertEval[ba.C]++
		}
	}
	if x.con != nil && fr != nil && fr.parent == nil {
		for _, bu := range x.con.BeforeUses {
			if bu.Callee != funcName(callee) {
				continue
			}
			uenv := &Env{st: st, vars: map[string]Val{}, pkg: x.con.Pkg, old: x.entry, fr: fr}
			for k, v := range x.params {
				uenv.vars[k] = v
			}
			uenv.pinned = map[string]Val{}
			for i, p := range callee.Params {
				uenv.vars[p.Name()] = args[i]
				uenv.pinned[p.Name()] = args[i]
				if a := x.P.paramAlias(callee, i); a != "" {
					uenv.vars[a] = args[i]
					uenv.pinned[a] = args[i]
				}
			}
			x.useLemma(st, uenv, bu.E, x.con.Props)
		}
	}
	if x.con != nil {
		for _, ba := range x.con.BeforeAssumes {
			if ba.Callee == funcName(callee) {
				st.assume(x.evalSpec(ba.E, env).T)
				x.usedExt["explicit assumption before "+ba.Callee+": "+ba.Src] = true
			}
		}
	}
	for _, rq := range con.Requires {
		g := x.evalSpec(rq.E, env)
		lbl := cname + "." + rq.Label
		if rq.Label == "" {
			lbl = cname + "." + shortText(rq.Text)
		}
		if fr != nil && fr.inl != "" {
			lbl = fr.inl + "." + lbl
		}
		if parts := splitGoal(g.T); len(parts) > 1 {
			for pi, part := range parts {
				x.emit(st, "pre", fmt.Sprintf("%s#%d", lbl, pi+1), "precondition of "+cname+": "+rq.Text, part, nil, pos, fr)
			}
		} else {
			x.emit(st, "pre", lbl, "precondition of "+cname+": "+rq.Text, g.T, nil, pos, fr)
		}
		st.assume(g.T)
	}
	snap := st.snapshot()
	// frame: havoc exactly the modifies targets
	if con.ModAll {
		bail("callee %s has 'modifies *'", cname)
	}
	// allocator may advance (before the havoc, so that havoced references may be fresh objects)
	res := callee.Signature.Results()
	{
		nt := x.freshName("top")
		st.declare(nt, "Int")
		st.assume(and(sx(">=", nt, st.top), sx("<=", nt, "4611686018427387904")))
		st.top = nt
	}
	for _, m := range con.Modifies {
		x.havocTarget(st, fr, env, m, pos, true)
	}
	// Objects the callee allocates live at roots above the caller's current top. The heap constants
	// are prophetic there: no assumption in the caller's state constrains cells of unallocated roots
	// (all heap axioms are guarded by r <= top), so the callee's postcondition is what reveals them.
	var rets []Val
	for i := 0; i < res.Len(); i++ {
		rets = append(rets, x.freshVal(st, "r_"+callee.Name(), res.At(i).Type()))
	}
	for _, pn := range con.Plain {
		for i := range rets {
			if (pn == fmt.Sprintf("result%d", i) || (pn == "result" && len(rets) == 1)) && rets[i].K == KPtr && rets[i].Ptr != nil {
				rets[i].Ptr.Enc = false
				st.assume(sx(">=", rets[i].Ptr.Root, "0"))
			}
		}
	}
	env2 := &Env{st: st, vars: env.vars, pkg: con.Pkg, old: snap}
	x.bindResults(callee, env2, rets)
	for _, en := range con.Ensures {
		g := x.evalSpec(en.E, env2)
		st.assume(g.T)
	}
	// remember the results of the latest call of this callee on the path (callret/called in check clauses);
	// only calls made by the function under verification itself
	if fr != nil {
		// (also calls made from inlined callees and closures of the function under verification)
		nm := funcName(callee)
		st.ghost["called:"+nm] = "true"
		st.ghost["ncalls:"+nm] = st.ghost["ncalls:"+nm] + "i"
		if st.callVals == nil {
			st.callVals = map[string]Val{}
		}
		for i, r := range rets {
			switch r.K {
			case KErr, KInt, KBool, KFloat, KSlice, KPtr:
				st.callVals[fmt.Sprintf("%s:%d", nm, i)] = r
			}
		}
		for i, a := range args {
			switch a.K {
			case KErr, KInt, KBool, KFloat, KSlice, KPtr:
				st.callVals[fmt.Sprintf("arg:%s:%d", nm, i)] = a
			}
		}
	}
	switch len(rets) {
	case 0:
		return Val{K: KTuple}
	case 1:
		return rets[0]
	}
	return Val{K: KTuple, Tup: rets}
}

func shortText(s string) string {
	s = sanitize(s)
	if len(s) > 24 {
		s = s[:24]
	}
	return s
}

// havocTarget gives the modifies target fresh contents. When check is set the
// target must lie inside the verified function's own frame.
func (x *Exec) havocTarget(st *State, fr *Frame, env *Env, m *Expr, pos token.Pos, check bool) {
	ss := x.P.ss
	// fb(e): the bytes of a file buffer
	if m.Op == "call" && (m.Name == "fb" || m.Name == "disk") {
		hk := map[string]string{"fb": "FB", "disk": "DISK"}[m.Name]
		v := x.evalSpec(m.Args[0], env)
		h := st.heap(hk, "(Array Int (Array Int Int))")
		row := x.freshName("fbrow")
		st.declare(row, "(Array Int Int)")
		k := x.freshName("k")
		st.assume(fmt.Sprintf("(forall ((%s Int)) (! (and (<= 0 (select %s %s)) (<= (select %s %s) 255)) :pattern ((select %s %s))))", k, row, k, row, k, row, k))
		if check {
			x.frameCheckGhost(st, fr, hk, x.termOf(v), pos)
		}
		x.setHeap(st, hk, "(Array Int (Array Int Int))", sx("store", h, x.termOf(v), row))
		if hk == "DISK" {
			// the length of the file may change with its content
			hl := st.heap("DISKLEN", "(Array Int Int)")
			nl := x.freshName("dlen")
			st.declare(nl, "Int")
			st.assume(sx(">=", nl, "0"))
			x.setHeap(st, "DISKLEN", "(Array Int Int)", sx("store", hl, x.termOf(v), nl))
		}
		return
	}
	if m.Op == "call" && m.Name == "rows" {
		// rows(T): any element of any []T may change (used where the touched slices are not nameable)
		key, hs, el := x.rowsTarget(env.pkg, m)
		st.heap(key, hs)
		if check && x.frameApplies() {
			ok := false
			for _, t := range x.modset {
				if t.whole && t.heap == key {
					ok = true
				}
			}
			if !ok {
				x.emit(st, "frame", "rows-in-frame@"+x.P.pos(pos), "callee modifies rows("+m.Args[0].Name+") which is not in the modifies clause", "false", nil, pos, fr)
			}
		}
		nh := x.havocHeap(st, key)
		r, k := x.freshName("r"), x.freshName("k")
		if rf := ss.rangeFact(el, sx("select", sx("select", nh, r), k), st.top); rf != "true" {
			st.assume(fmt.Sprintf("(forall ((%s Int) (%s Int)) (! (=> (<= %s %s) %s) :pattern ((select (select %s %s) %s))))", r, k, r, st.top, rf, nh, r, k))
		}
		return
	}
	if m.Op == "call" && m.Name == "ghost" {
		nm := m.Args[0].Name
		v := x.evalSpec(m.Args[1], env)
		h := st.heap("G_"+nm, "(Array Int Int)")
		n := x.freshName("g_" + nm)
		st.declare(n, "Int")
		if check {
			x.frameCheckGhost(st, fr, "G_"+nm, x.termOf(v), pos)
		}
		x.setHeap(st, "G_"+nm, "(Array Int Int)", sx("store", h, x.termOf(v), n))
		return
	}
	if m.Op == "slice" {
		base := x.evalSpec(m.Args[0], env)
		if base.K != KSlice {
			bail("modifies target %s is not a slice", m)
		}
		lo := "0"
		if m.Args[1] != nil {
			lo = x.evalSpec(m.Args[1], env).T
		}
		hi := sLen(base.T)
		if m.Args[2] != nil {
			hi = x.evalSpec(m.Args[2], env).T
		}
		key, el := x.sliceHeap(base.Typ)
		hs := ss.heapSort(el, true)
		h := st.heap(key, hs)
		row := x.freshName("hrow")
		st.declare(row, fmt.Sprintf("(Array Int %s)", ss.sortOf(el)))
		oldRow := sx("select", h, sArr(base.T))
		k := x.freshName("k")
		st.assume(fmt.Sprintf("(forall ((%s Int)) (! (=> (or (< %s (+ %s %s)) (>= %s (+ %s %s))) (= (select %s %s) (select %s %s))) :pattern ((select %s %s))))",
			k, k, sOff(base.T), lo, k, sOff(base.T), hi, row, k, oldRow, k, row, k))
		if rf := ss.rangeFact(el, sx("select", row, k), st.top); rf != "true" {
			st.assume(fmt.Sprintf("(forall ((%s Int)) (! %s :pattern ((select %s %s))))", k, rf, row, k))
		}
		if check {
			x.frameCheckRegion(st, fr, key, sArr(base.T), sx("+", sOff(base.T), lo), sx("+", sOff(base.T), hi), pos, "")
		}
		x.setHeap(st, key, hs, sx("store", h, sArr(base.T), row))
		return
	}
	var v Val
	if m.Op == "unary" && m.Name == "*" {
		v = x.evalSpec(m.Args[0], env)
	} else if m.Op == "field" {
		base := x.evalSpec(m.Args[0], env)
		if base.K != KPtr || base.Ptr == nil {
			bail("modifies target %s: base is not a pointer", m)
		}
		stt, ok := pathType(base.Ptr.Elem, base.Ptr.Path).Underlying().(*types.Struct)
		if !ok {
			bail("modifies target %s: not a struct", m)
		}
		found := false
		for i := 0; i < stt.NumFields(); i++ {
			if stt.Field(i).Name() == m.Name {
				np := *base.Ptr
				np.Path = append(append([]int(nil), base.Ptr.Path...), i)
				v = Val{K: KPtr, Ptr: &np}
				found = true
			}
		}
		if !found {
			bail("modifies target %s: no such field", m)
		}
	} else {
		v = x.evalSpec(m, env)
	}
	if v.K != KPtr || v.Ptr == nil {
		bail("modifies target %s is not a location", m)
	}
	p := v.Ptr
	if p.Heap == "" && p.Local == nil {
		return // opaque external object: no state of ours
	}
	t := pathType(p.Elem, p.Path)
	nv := x.freshVal(st, "hv", t)
	if check {
		x.frameCheck(st, fr, p, pos)
	}
	x.store(st, p, nv)
}

// ------------------------------------------------------------------ frame checks (function's own modifies clause)

func (x *Exec) frameApplies() bool {
	return x.con != nil && !x.con.ModAll && !x.con.Trusted
}

func pathPrefix(a, b []int) bool { // a is a prefix of b
	if len(a) > len(b) {
		return false
	}
	for i := range a {
		if a[i] != b[i] {
			return false
		}
	}
	return true
}

func (x *Exec) frameCheck(st *State, fr *Frame, p *Pointer, pos token.Pos) {
	if !x.frameApplies() || p.Local != nil || p.Fresh {
		return
	}
	if p.Heap == "" {
		return
	}
	var alts []string
	alts = append(alts, sx(">", p.Root, x.entry.top))
	for _, t := range x.modset {
		if t.whole && t.heap == p.Heap && p.Rows {
			return
		}
		if t.heap != p.Heap || !pathPrefix(t.path, p.Path) {
			continue
		}
		if t.rows {
			alts = append(alts, and(sx("=", t.root, p.Root), sx("<=", t.lo, p.Idx), sx("<", p.Idx, t.hi)))
		} else {
			alts = append(alts, sx("=", t.root, p.Root))
		}
	}
	lbl := fmt.Sprintf("write-in-frame@%s", x.P.pos(pos))
	if fr != nil && fr.inl != "" {
		lbl = fr.inl + "." + lbl
	}
	x.emit(st, "frame", lbl, "written location is in the modifies clause or freshly allocated", or(alts...), nil, pos, fr)
}

func (x *Exec) frameCheckRegion(st *State, fr *Frame, heap, root, lo, hi string, pos token.Pos, guard string) {
	if !x.frameApplies() {
		return
	}
	if guard == "" {
		guard = "true"
	}
	var alts []string
	alts = append(alts, sx(">", root, x.entry.top), sx(">=", lo, hi))
	for _, t := range x.modset {
		if t.whole && t.heap == heap {
			return
		}
		if t.heap != heap || !t.rows || len(t.path) > 0 {
			continue
		}
		alts = append(alts, and(sx("=", t.root, root), sx("<=", t.lo, lo), sx("<=", hi, t.hi)))
	}
	lbl := fmt.Sprintf("region-in-frame@%s", x.P.pos(pos))
	if fr != nil && fr.inl != "" {
		lbl = fr.inl + "." + lbl
	}
	x.emit(st, "frame", lbl, "written region is in the modifies clause or freshly allocated", implies(guard, or(alts...)), nil, pos, fr)
}

func (x *Exec) frameCheckGhost(st *State, fr *Frame, heap, key string, pos token.Pos) {
	if !x.frameApplies() {
		return
	}
	var alts []string
	if heap != "FB" && heap != "DISK" || true {
		// state attached to an object allocated by this function is always in the frame
		alts = append(alts, sx(">", key, x.entry.top))
	}
	for _, t := range x.modset {
		if t.heap == heap {
			alts = append(alts, sx("=", t.root, key))
		}
	}
	lbl := fmt.Sprintf("ghost-in-frame@%s", x.P.pos(pos))
	if fr != nil && fr.inl != "" {
		lbl = fr.inl + "." + lbl
	}
	x.emit(st, "frame", lbl, "modified ghost/file state is in the modifies clause", or(alts...), nil, pos, fr)
}

// computeModset evaluates the function's own modifies clause at entry.
func (x *Exec) computeModset(st *State, env *Env) {
	if x.con == nil {
		return
	}
	for _, m := range x.con.Modifies {
		t := modTarget{text: m.String()}
		switch {
		case m.Op == "call" && (m.Name == "fb" || m.Name == "disk"):
			v := x.evalSpec(m.Args[0], env)
			t.heap, t.root = map[string]string{"fb": "FB", "disk": "DISK"}[m.Name], x.termOf(v)
		case m.Op == "call" && m.Name == "ghost":
			v := x.evalSpec(m.Args[1], env)
			t.heap, t.root = "G_"+m.Args[0].Name, x.termOf(v)
		case m.Op == "call" && m.Name == "rows":
			key, _, _ := x.rowsTarget(env.pkg, m)
			t.heap, t.whole, t.rows, t.root, t.lo, t.hi = key, true, true, "0", "0", "0"
		case m.Op == "slice":
			base := x.evalSpec(m.Args[0], env)
			lo := "0"
			if m.Args[1] != nil {
				lo = x.evalSpec(m.Args[1], env).T
			}
			hi := sLen(base.T)
			if m.Args[2] != nil {
				hi = x.evalSpec(m.Args[2], env).T
			}
			key, _ := x.sliceHeap(base.Typ)
			t.heap, t.rows, t.root = key, true, sArr(base.T)
			t.lo, t.hi = sx("+", sOff(base.T), lo), sx("+", sOff(base.T), hi)
		default:
			var v Val
			if m.Op == "unary" && m.Name == "*" {
				v = x.evalSpec(m.Args[0], env)
			} else if m.Op == "field" {
				base := x.evalSpec(m.Args[0], env)
				if base.K != KPtr || base.Ptr == nil {
					bail("modifies target %s: base is not a pointer", m)
				}
				stt := pathType(base.Ptr.Elem, base.Ptr.Path).Underlying().(*types.Struct)
				for i := 0; i < stt.NumFields(); i++ {
					if stt.Field(i).Name() == m.Name {
						np := *base.Ptr
						np.Path = append(append([]int(nil), base.Ptr.Path...), i)
						v = Val{K: KPtr, Ptr: &np}
					}
				}
			} else {
				v = x.evalSpec(m, env)
			}
			if v.K != KPtr || v.Ptr == nil {
				bail("modifies target %s is not a location", m)
			}
			p := v.Ptr
			t.heap, t.rows, t.root, t.path = p.Heap, p.Rows, p.Root, p.Path
			if p.Rows {
				t.lo, t.hi = p.Idx, sx("+", p.Idx, "1")
			}
		}
		x.modset = append(x.modset, t)
	}
}

// applyDynamicContract applies an assumed contract to a call through a function value of a
// named function type; parameters are called p0, p1, ...
func (x *Exec) applyDynamicContract(st *State, fr *Frame, con *Contract, sig *types.Signature, args []Val, pos token.Pos) Val {
	env := &Env{st: st, vars: map[string]Val{}, pkg: ""}
	for i, a := range args {
		env.vars[fmt.Sprintf("p%d", i)] = a
	}
	snap := st.snapshot()
	for _, m := range con.Modifies {
		x.havocTarget(st, fr, env, m, pos, true)
	}
	if contractMayAllocate(con) {
		// the callee may have allocated and initialised objects: every heap is unknown above the
		// caller's allocator top at the time of the call
		for _, k := range sortedKeys(st.heaps) {
			if strings.HasPrefix(k, "G_") || k == "FBLEN" || k == "DISKLEN" {
				continue
			}
			old := st.heaps[k]
			nh := x.freshName(k)
			st.declare(nh, st.hsort[k])
			st.heaps[k] = nh
			if strings.HasPrefix(k, "HS_") || k == "FB" || k == "DISK" {
				st.assume(fmt.Sprintf("(forall ((r Int) (k Int)) (! (=> (<= r %s) (= (select (select %s r) k) (select (select %s r) k))) :pattern ((select (select %s r) k))))", snap.top, nh, old, nh))
			} else {
				st.assume(fmt.Sprintf("(forall ((r Int)) (! (=> (<= r %s) (= (select %s r) (select %s r))) :pattern ((select %s r))))", snap.top, nh, old, nh))
			}
			// every cell of a well-typed heap satisfies its type invariant (relative to the current allocator top)
			if ax := theSorts.heapTypeAxiom(k, nh, st.top); ax != "" {
				st.assume(ax)
			}
		}
	}
	var rets []Val
	for i := 0; i < sig.Results().Len(); i++ {
		rets = append(rets, x.freshVal(st, "dyn", sig.Results().At(i).Type()))
	}
	env2 := &Env{st: st, vars: env.vars, pkg: "", old: snap}
	for i, r := range rets {
		env2.vars[fmt.Sprintf("result%d", i)] = r
	}
	if len(rets) == 1 {
		env2.vars["result"] = rets[0]
	}
	for _, en := range con.Ensures {
		st.assume(x.evalSpec(en.E, env2).T)
	}
	switch len(rets) {
	case 0:
		return Val{K: KTuple}
	case 1:
		return rets[0]
	}
	return Val{K: KTuple, Tup: rets}
}

// contractMayAllocate: the contract promises freshly allocated results (so the callee allocates).
func contractMayAllocate(con *Contract) bool {
	for _, en := range con.Ensures {
		if strings.Contains(en.Text, "fresh(") {
			return true
		}
	}
	return false
}

// rowsTarget resolves modifies rows(T) to the row heap of []T.
func (x *Exec) rowsTarget(pkg string, m *Expr) (key, sort string, el types.Type) {
	if len(m.Args) != 1 || m.Args[0].Op != "ident" {
		bail("rows() expects a type name")
	}
	t := x.resolveType(pkg, m.Args[0].Name)
	if t == nil {
		bail("rows(%s): unknown type", m.Args[0].Name)
	}
	ss := x.P.ss
	return ss.heapKey(t, true), ss.heapSort(t, true), t
}

// variadicOperand finds the i-th operand packed into a variadic []interface{} argument (the SSA shape
// new [n]interface{}; &t[i]; make interface <- v; store; slice).
func variadicOperand(arg ssa.Value, i int) ssa.Value {
	sl, ok := arg.(*ssa.Slice)
	if !ok {
		return nil
	}
	al, ok := sl.X.(*ssa.Alloc)
	if !ok || al.Referrers() == nil {
		return nil
	}
	for _, r := range *al.Referrers() {
		ia, ok := r.(*ssa.IndexAddr)
		if !ok || ia.Referrers() == nil {
			continue
		}
		c, ok := ia.Index.(*ssa.Const)
		if !ok || c.Value == nil {
			continue
		}
		if n, exact := constant.Int64Val(c.Value); !exact || int(n) != i {
			continue
		}
		for _, u := range *ia.Referrers() {
			if st, ok := u.(*ssa.Store); ok && st.Addr == ia {
				if mi, ok := st.Val.(*ssa.MakeInterface); ok {
					return mi.X
				}
			}
		}
	}
	return nil
}
