package main

import (
	"encoding/json"
	"flag"
	"fmt"
	"os"
	"path/filepath"
	"sort"
	"strings"
	"time"
)



func loadAll(repo, verif string) (*Prog, error) {
	P, err := loadProg(repo)
	if err != nil {
		return nil, err
	}
	P.specs = newSpecs()
	for _, f := range []struct{ path, pkg string }{{filepath.Join(repo, "contracts_verif.go"), ""}, {filepath.Join(repo, "cmd", "contracts_verif.go"), "cmd"}} {
		if _, err := os.Stat(f.path); err == nil {
			if err := P.specs.loadSpecFile(f.path, f.pkg, false); err != nil {
				return nil, err
			}
		}
	}
	dc, _ := filepath.Glob(filepath.Join(verif, "depcontracts", "*.spec"))
	sort.Strings(dc)
	for _, f := range dc {
		// contracts on dependency functions (checked, not trusted); package key from the file name
		pk := "dep/" + strings.TrimSuffix(filepath.Base(f), ".spec")
		if err := P.specs.loadSpecFile(f, pk, false); err != nil {
			return nil, err
		}
	}
	tr, _ := filepath.Glob(filepath.Join(verif, "trusted", "*.spec"))
	sort.Strings(tr)
	for _, f := range tr {
		if err := P.specs.loadSpecFile(f, "", true); err != nil {
			return nil, err
		}
	}
	if data, err := os.ReadFile(filepath.Join(verif, "paramnames.json")); err == nil {
		json.Unmarshal(data, &P.paramSnap)
	}
	if data, err := os.ReadFile(filepath.Join(verif, "localnames.json")); err == nil {
		json.Unmarshal(data, &P.localSnap)
	}
	if c := P.specs.lemmaCycle(); c != "" {
		return nil, fmt.Errorf("circular lemma uses: %s", c)
	}
	return P, nil
}

func main() {
	if len(os.Args) < 2 {
		fmt.Fprintln(os.Stderr, "usage: gowp <func|check|sweep|list> ...")
		os.Exit(2)
	}
	switch os.Args[1] {
	case "func":
		cmdFunc(os.Args[2:])
	case "check":
		os.Exit(cmdCheck(os.Args[2:]))
	case "lemma":
		P, err := loadAll("/repo", "/verif")
		if err != nil {
			fmt.Fprintln(os.Stderr, err)
			os.Exit(2)
		}
		for _, name := range os.Args[2:] {
			lm := P.specs.Lemmas[name]
			if lm == nil {
				fmt.Println("no such lemma", name)
				continue
			}
			obls := P.lemmaObls(lm)
			solveAll(P, obls, 20000, true, 4)
			for _, o := range obls {
				fmt.Printf("  %s: %s %dms [%s] %s\n", o.Name, o.Result.Verdict, o.Result.Ms, o.Result.Solver, o.Goal)
			}
		}
	case "localnames":
		P, err := loadAll("/repo", "/verif")
		if err != nil {
			fmt.Fprintln(os.Stderr, err)
			os.Exit(2)
		}
		snap := map[string][][2]string{}
		for k := range P.specs.Funcs {
			if fn := P.funcs[k]; fn != nil && fn.Blocks != nil {
				snap[k] = P.localsOf(fn)
			}
		}
		js, _ := json.MarshalIndent(snap, "", " ")
		fmt.Println(string(js))
	case "paramnames":
		// snapshot of the parameter names of every function under contract (written to stdout)
		P, err := loadAll("/repo", "/verif")
		if err != nil {
			fmt.Fprintln(os.Stderr, err)
			os.Exit(2)
		}
		snap := map[string][]string{}
		for k := range P.specs.Funcs {
			if fn := P.funcs[k]; fn != nil {
				var ns []string
				for _, p := range fn.Params {
					ns = append(ns, p.Name())
				}
				snap[k] = ns
			}
		}
		js, _ := json.MarshalIndent(snap, "", " ")
		fmt.Println(string(js))
	case "list":
		P, err := loadAll("/repo", "/verif")
		if err != nil {
			fmt.Fprintln(os.Stderr, err)
			os.Exit(2)
		}
		var ks []string
		for k := range P.funcs {
			ks = append(ks, k)
		}
		sort.Strings(ks)
		contracted := len(os.Args) > 2 && os.Args[2] == "-contracted"
		for _, k := range ks {
			if contracted {
				c := P.specs.Funcs[k]
				if c == nil || c.Trusted || c.Pure || c.Inline {
					continue
				}
			}
			fmt.Println(k)
		}
	default:
		fmt.Fprintln(os.Stderr, "unknown command")
		os.Exit(2)
	}
}

func cmdFunc(args []string) {
	fs := flag.NewFlagSet("func", flag.ExitOnError)
	repo := fs.String("repo", "/repo", "")
	verif := fs.String("verif", "/verif", "")
	timeout := fs.Int("t", 10000, "solver timeout ms")
	dump := fs.String("dump", "", "dump SMT of obligations whose name contains this")
	showAll := fs.Bool("v", false, "")
	fs.Parse(args)
	P, err := loadAll(*repo, *verif)
	if err != nil {
		fmt.Fprintln(os.Stderr, err)
		os.Exit(2)
	}
	for _, key := range fs.Args() {
		if !strings.Contains(key, ":") {
			key = ":" + key
		}
		t0 := time.Now()
		r := P.verifyFunc(key, false)
		if r.OutOfSub != "" {
			fmt.Printf("%s: OUT-OF-SUBSET: %s\n", key, r.OutOfSub)
			continue
		}
		gen := time.Since(t0)
		fmt.Fprintf(os.Stderr, "%s: generated %d obligations on %d paths in %v\n", key, len(r.Obls), r.Paths, gen.Round(time.Millisecond))
		solveAll(P, r.Obls, *timeout, false, 3)
		if os.Getenv("GOWP_PROF") != "" {
			fmt.Fprintf(os.Stderr, "script building (full variant): %v\n", time.Duration(scriptNanos))
		}
		bad := 0
		// return-path covers are judged per return position: one feasible path suffices
		coverOK := map[string]bool{}
		for _, o := range r.Obls {
			if o.Cover && o.Result.Verdict != "unsat" {
				coverOK[o.Name] = true
			}
		}
		reportedDead := map[string]bool{}
		for _, o := range r.Obls {
			ok := o.Result.Verdict == "unsat"
			if o.Cover {
				ok = coverOK[o.Name]
				if !ok && reportedDead[o.Name] {
					continue
				}
				reportedDead[o.Name] = true
			}
			if !ok && o.Cover {
				fmt.Printf("  DEAD     %-60s (no feasible path) %s\n", o.Name, o.Pos)
				continue
			}
			if !ok {
				bad++
			}
			if !ok || *showAll {
				fmt.Printf("  %-8s %-60s %s %dms [%s] %s\n", map[bool]string{true: "ok", false: "FAIL"}[ok], o.Name, o.Result.Verdict, o.Result.Ms, o.Result.Solver, o.Pos)
				if !ok {
					fmt.Printf("           goal: %s\n           trace: %v\n", o.Goal, o.Trace)
				}
			}
			if *dump != "" && strings.Contains(o.Name, *dump) {
				fn := fmt.Sprintf("/tmp/gowp_dump_%s_%d.smt2", sanitize(o.Name), o.Path)
				os.WriteFile(fn, []byte(o.script(P, true)), 0644)
				fmt.Printf("           dumped %s\n", fn)
				if !ok && o.Result.Model != "" {
					fmt.Println(truncate(o.Result.Model, 3000))
				}
			}
		}
		fmt.Printf("%s: %d obligations, %d failed, %d paths, gen %v, total %v; notes=%v\n", key, len(r.Obls), bad, r.Paths, gen.Round(time.Millisecond), time.Since(t0).Round(time.Millisecond), r.Notes)
	}
}


