package main

// Per-function verification driver: entry state, exit obligations, vacuity covers.

import (
	"fmt"
	"go/token"
	"go/types"
	"math"
	"sort"
	"strings"

	"golang.org/x/tools/go/ssa"
)

func f64bits(f float64) uint64 { return math.Float64bits(f) }
func f32bits(f float32) uint32 { return math.Float32bits(f) }

type FuncResult struct {
	Key       string
	Obls      []*Obligation
	OutOfSub  string // non-empty: reason the function left the subset
	Paths     int
	Notes     []string
	UsedExt   []string
	Inlined   []string
	HasSpec   bool
	Trusted   bool
	UsedContracts []string
	UsedLemmas []string
}

func (P *Prog) verifyFunc(key string, sweepOnly bool) (res *FuncResult) {
	fn := P.funcs[key]
	res = &FuncResult{Key: key}
	if fn == nil {
		res.OutOfSub = "contract-binding: function not found in the current tree"
		return
	}
	con := P.specs.Funcs[key]
	res.HasSpec = con != nil
	if con != nil && con.Trusted {
		res.Trusted = true
		return
	}
	x := &Exec{P: P, fn: fn, key: displayKey(key), con: con, usedExt: map[string]bool{}, inlined: map[string]bool{}, usedContracts: map[string]bool{}}
	if con != nil && con.NoSafety {
		x.noSafe = true
	}
	defer func() {
		if r := recover(); r != nil {
			if b, ok := r.(bailout); ok {
				res.OutOfSub = b.msg
				res.Obls = nil
				return
			}
			panic(r)
		}
	}()
	if fn.Blocks == nil {
		res.OutOfSub = "no body"
		return
	}
	st := &State{declSet: map[string]bool{}, heaps: map[string]string{}, hsort: map[string]string{}, cells: map[*Cell]Val{},
		written: map[string]bool{}, ghost: map[string]string{}, boolDef: map[string]string{}, factSet: map[string]bool{}}
	st.declare("top_0", "Int")
	st.top = "top_0"
	st.assume("(and (>= top_0 1) (<= top_0 4611686018427387904))")
	fr := x.newFrame(fn, nil)
	x.params = map[string]Val{}
	for pi, p := range fn.Params {
		v := x.freshVal(st, "p_"+p.Name(), p.Type())
		if v.K == KPtr && v.Ptr != nil {
			v.Ptr.Enc = false // parameters are passed by reference: the callee sees a plain object
		}
		fr.vals[p] = v
		x.params[p.Name()] = v
		if a := P.paramAlias(fn, pi); a != "" {
			x.params[a] = v
		}
	}
	for _, fv := range fn.FreeVars {
		v := x.freshVal(st, "fv_"+fv.Name(), fv.Type())
		if v.K == KPtr && v.Ptr != nil {
			st.assume(sx(">=", v.Ptr.Root, "1"))
		}
		fr.vals[fv] = v
		x.params[fv.Name()] = v
	}
	x.entry = st.snapshot()
	func() {
		defer func() { recover() }()
		x.replay = x.prepareReplay(st, fr)
	}()
	env := &Env{st: st, vars: x.params, pkg: x.pkgOf(fn), old: x.entry}
	if con != nil {
		for _, rq := range con.Requires {
			g := x.evalSpec(rq.E, env)
			st.assume(g.T)
		}
		x.computeModset(st, env)
		x.entry = st.snapshot()
		for _, u := range con.Uses {
			x.useLemma(st, env, u, con.Props)
		}
		// vacuity cover: the precondition together with the type invariants is satisfiable
		o := &Obligation{Name: x.key + ".cover.requires", Func: x.key, Kind: "cover", Label: "requires", Goal: "precondition is satisfiable",
			Decls: append([]string(nil), st.decls...), Facts: append([]string(nil), st.facts...), Neg: "true", Cover: true, Pos: P.pos(fn.Pos())}
		x.obls = append(x.obls, o)
	}
	x.run(st, fr, fn.Blocks[0], 0)
	if con != nil {
		for _, ck := range con.Checks {
			if x.checkEval[ck] == 0 {
				bail("check clause %q could not be evaluated at any return (unknown local?)", ck.Label)
			}
		}
		for _, ba := range con.BeforeAsserts {
			if x.assertEval[ba.C] == 0 {
				bail("assert clause %q: no direct call of %s was reached", ba.C.Label, ba.Callee)
			}
		}
	}
	res.Obls = x.obls
	res.Paths = x.paths
	res.Notes = x.notes
	for k := range x.usedExt {
		res.UsedExt = append(res.UsedExt, k)
	}
	sort.Strings(res.UsedExt)
	for k := range x.inlined {
		res.Inlined = append(res.Inlined, k)
	}
	sort.Strings(res.Inlined)
	for k := range x.usedContracts {
		res.UsedContracts = append(res.UsedContracts, k)
	}
	sort.Strings(res.UsedContracts)
	res.UsedLemmas = x.usedLemmas
	// props: function-level props apply to every obligation without clause-level props
	if con != nil {
		for _, o := range res.Obls {
			if len(o.Props) == 0 {
				o.Props = con.Props
			}
		}
	}
	return
}

func displayKey(key string) string {
	if strings.HasPrefix(key, ":") {
		return key[1:]
	}
	return strings.Replace(key, ":", ".", 1)
}

// atExit emits the postcondition obligations at a return of the verified function.
func (x *Exec) atExit(st *State, fr *Frame, rets []Val, pos token.Pos) {
	if x.con == nil {
		return
	}
	// vacuity guard: the path reaching this return is satisfiable
	x.obls = append(x.obls, &Obligation{Name: x.key + ".cover.return@" + x.P.pos(pos), Func: x.key, Kind: "cover", Label: "return", Goal: "path to this return is feasible",
		Decls: append([]string(nil), st.decls...), Facts: append([]string(nil), st.facts...), Neg: "true", Cover: true, Pos: x.P.pos(pos), Path: x.paths,
		Trace: append([]string(nil), st.trace...), Props: x.con.Props})
	env := &Env{st: st, vars: map[string]Val{}, pkg: x.con.Pkg, old: x.entry}
	for k, v := range x.params {
		env.vars[k] = v
	}
	x.bindResults(x.fn, env, rets)
	x.curRets = rets
	defer func() { x.curRets = nil }()
	for _, pn := range x.con.Plain {
		for i := range rets {
			if (pn == fmt.Sprintf("result%d", i) || (pn == "result" && len(rets) == 1)) && rets[i].K == KPtr {
				x.emit(st, "post", "plain."+pn, pn+" is not an interior pointer", sx(">=", x.termOf(rets[i]), "0"), x.con.Props, pos, fr)
			}
		}
	}
	for i, en := range x.con.Checks {
		lenv := *env
		lenv.fr = fr
		lenv.localsFirst = true // a named result variable means the variable, resultN the returned value
		g, ok := x.evalCheck(en.E, &lenv)
		if !ok {
			continue // a local of the clause is not yet bound at this return (an early exit)
		}
		if x.checkEval == nil {
			x.checkEval = map[*Clause]int{}
		}
		x.checkEval[en]++
		lbl := en.Label
		if lbl == "" {
			lbl = fmt.Sprintf("check%d", i)
		}
		parts := splitGoal(g.T)
		for pi, part := range parts {
			l2 := lbl
			if len(parts) > 1 {
				l2 = fmt.Sprintf("%s#%d", lbl, pi+1)
			}
			x.emit(st, "post", "check."+l2, en.Text, part, en.Props, pos, fr)
		}
	}
	for i, en := range x.con.Ensures {
		g := x.evalSpec(en.E, env)
		lbl := en.Label
		if lbl == "" {
			lbl = fmt.Sprintf("ensures%d", i)
		}
		parts := splitGoal(g.T)
		for pi, part := range parts {
			l2 := lbl
			if len(parts) > 1 {
				l2 = fmt.Sprintf("%s#%d", lbl, pi+1)
			}
			x.emit(st, "post", l2, en.Text, part, en.Props, pos, fr)
		}
	}
}

// handle errgroup worker return
func (x *Exec) foldGroupError(st *State, nf *Frame, ret Val) {
	g := nf.vals[egGroupKey]
	h := st.heap("G_egerr", "(Array Int Err)")
	old := sx("select", h, g.Ptr.Root)
	x.setHeap(st, "G_egerr", "(Array Int Err)", sx("store", h, g.Ptr.Root, ite(sx("=", old, "ErrNil"), ret.T, old)))
}

// sortStable models sort.Stable / sort.Sort on a slice wrapped in an interface whose
// Less compares a key field; see trusted/sort.md for the assumed contract.
func (x *Exec) sortStable(st *State, fr *Frame, arg Val, pos token.Pos, stable bool) {
	if arg.K != KIface || arg.Dyn == nil || arg.Dyn.K != KSlice {
		bail("sort on a value that is not a statically known slice type")
	}
	s := *arg.Dyn
	named, ok := s.Typ.(*types.Named)
	if !ok {
		bail("sort on unnamed type")
	}
	// find Less method: must be in the repository, single block, comparing one field with <
	var less *ssa.Function
	ms := x.P.prog.MethodSets.MethodSet(named)
	for i := 0; i < ms.Len(); i++ {
		if ms.At(i).Obj().Name() == "Less" {
			less = x.P.prog.MethodValue(ms.At(i))
		}
	}
	if less == nil {
		bail("sort: no Less method")
	}
	keyField, ok := lessKeyField(less)
	if !ok {
		bail("sort: Less method of %v is not of the form a[i].F < a[j].F", named)
	}
	ss := x.P.ss
	key, el := x.sliceHeap(s.Typ)
	hs := ss.heapSort(el, true)
	h := st.heap(key, hs)
	stt := ss.structSort(el)
	acc := stt.Fields[keyField].Name
	oldRow := x.freshName("sortold")
	st.declare(oldRow, fmt.Sprintf("(Array Int %s)", stt.Name))
	st.assume(sx("=", oldRow, sx("select", h, sArr(s.T))))
	row := x.freshName("sorted")
	st.declare(row, fmt.Sprintf("(Array Int %s)", stt.Name))
	perm := x.freshName("perm")
	inv := x.freshName("perminv")
	st.decls = append(st.decls, fmt.Sprintf("(declare-fun %s (Int) Int)", perm), fmt.Sprintf("(declare-fun %s (Int) Int)", inv))
	off, n := sOff(s.T), sLen(s.T)
	// outside the slice window nothing changes
	st.assume(fmt.Sprintf("(forall ((k Int)) (! (=> (or (< k %s) (>= k (+ %s %s))) (= (select %s k) (select %s k))) :pattern ((select %s k))))", off, off, n, row, oldRow, row))
	// new[i] = old[perm(i)], perm maps [0,n) to [0,n) bijectively (inverse given)
	st.assume(normalizeForall("forall", []string{"qs_i"}, fmt.Sprintf("(=> (and (<= 0 qs_i) (< qs_i %s)) (and (<= 0 (%s qs_i)) (< (%s qs_i) %s) (= (%s (%s qs_i)) qs_i) (= (select %s (+ %s qs_i)) (select %s (+ %s (%s qs_i))))))",
		n, perm, perm, n, inv, perm, row, off, oldRow, off, perm)))
	st.assume(fmt.Sprintf("(forall ((j Int)) (! (=> (and (<= 0 j) (< j %s)) (and (<= 0 (%s j)) (< (%s j) %s) (= (%s (%s j)) j))) :pattern ((%s j))))",
		n, inv, inv, n, perm, inv, inv))
	// every old element occurs in the new array (at inv(j))
	st.assume(normalizeForall("forall", []string{"qs_j"}, fmt.Sprintf("(=> (and (<= 0 qs_j) (< qs_j %s)) (= (select %s (+ %s qs_j)) (select %s (+ %s (%s qs_j)))))",
		n, oldRow, off, row, off, inv)))
	// sorted by key
	st.assume(normalizeForall("forall", []string{"qs_a", "qs_b"}, fmt.Sprintf("(=> (and (<= 0 qs_a) (< qs_a qs_b) (< qs_b %s)) (<= (%s (select %s (+ %s qs_a))) (%s (select %s (+ %s qs_b)))))",
		n, acc, row, off, acc, row, off)))
	if stable {
		st.assume(fmt.Sprintf("(forall ((i Int) (j Int)) (! (=> (and (<= 0 i) (< i j) (< j %s) (= (%s (select %s (+ %s i))) (%s (select %s (+ %s j))))) (< (%s i) (%s j))) :pattern ((%s i) (%s j))))",
			n, acc, row, off, acc, row, off, perm, perm, perm, perm))
	}
	x.frameCheckRegion(st, fr, key, sArr(s.T), off, sx("+", off, n), pos, "")
	x.setHeap(st, key, hs, sx("store", h, sArr(s.T), row))
	st.ghost["sortperm"] = perm
	st.ghost["sortinv"] = inv
	st.ghost["sortold"] = oldRow
	x.usedExt["sort.Stable (assumed: stable permutation sorted by Less)"] = true
}

// lessKeyField recognises  func (a T) Less(i, j int) bool { return a[i].F < a[j].F }.
func lessKeyField(f *ssa.Function) (int, bool) {
	if len(f.Blocks) != 1 {
		return 0, false
	}
	var ret *ssa.Return
	for _, in := range f.Blocks[0].Instrs {
		if r, ok := in.(*ssa.Return); ok {
			ret = r
		}
	}
	if ret == nil || len(ret.Results) != 1 {
		return 0, false
	}
	cmp, ok := ret.Results[0].(*ssa.BinOp)
	if !ok || cmp.Op != token.LSS {
		return 0, false
	}
	field := func(v ssa.Value, param string) (int, bool) {
		u, ok := v.(*ssa.UnOp)
		if !ok {
			return 0, false
		}
		fa, ok := u.X.(*ssa.FieldAddr)
		if !ok {
			return 0, false
		}
		ia, ok := fa.X.(*ssa.IndexAddr)
		if !ok {
			return 0, false
		}
		p, ok := ia.Index.(*ssa.Parameter)
		if !ok || p.Name() != param {
			return 0, false
		}
		return fa.Field, true
	}
	fi, ok1 := field(cmp.X, f.Params[1].Name())
	fj, ok2 := field(cmp.Y, f.Params[2].Name())
	if !ok1 || !ok2 || fi != fj {
		return 0, false
	}
	return fi, true
}

// evalCheck evaluates an exit assertion; ok=false when it mentions a local that is not bound on this path.
func (x *Exec) evalCheck(e *Expr, env *Env) (v Val, ok bool) {
	defer func() {
		if r := recover(); r != nil {
			if b, isB := r.(bailout); isB && strings.Contains(b.msg, "unknown identifier") {
				ok = false
				return
			}
			panic(r)
		}
	}()
	return x.evalSpec(e, env), true
}
