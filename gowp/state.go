package main

// Symbolic state: values, pointers, heaps, facts.

import (
	"fmt"
	"go/types"
	"math/big"
	"strings"

	"golang.org/x/tools/go/ssa"
)

// Val is a symbolic value.
type Val struct {
	K   Kind
	T   string     // SMT term where applicable
	Typ types.Type // Go type (nil for spec-level integers/bools)
	Ptr *Pointer   // KPtr
	Tup []Val      // KTuple
	Fn  *Closure   // KFunc
	Dyn *Val       // KIface: dynamic value
	Lo, Hi *big.Int // optional statically known bounds of an integer value (tighter than its type)
}

type Closure struct {
	Fn       *ssa.Function
	Bindings []Val
}

// Pointer is a structural pointer: a root in a typed heap plus a field path.
type Pointer struct {
	Local  *Cell      // path-local cell (non-escaping Alloc)
	Heap   string     // heap key; "" = opaque (external object, never dereferenced)
	Rows   bool       // heap of array rows (slice backing stores, arrays)
	Elem   types.Type // type of the heap cell before Path
	Root   string     // SMT Int; 0 = nil
	Idx    string     // SMT Int index when Rows
	Path   []int      // struct field indices below the cell
	ArrLen int64      // with IsArr: this is a pointer to an array [ArrLen]Elem starting at Idx
	IsArr  bool
	ExtField bool     // location inside an external (unmodelled) object
	Enc    bool       // Root may be an interior-site encoding (negative) of a field of another object
	Fresh  bool       // freshly allocated in this function (non-nil, writable)
}

type Cell struct {
	id  int
	typ types.Type
}

type bailout struct{ msg string }

func bail(format string, a ...interface{}) {
	panic(bailout{fmt.Sprintf(format, a...)})
}

// State is the symbolic state along one path.
type State struct {
	callVals map[string]Val // callret: results of the latest direct call per callee
	decls   []string
	declSet map[string]bool
	facts   []string
	heaps   map[string]string // heap key -> current SMT constant
	hsort   map[string]string // heap key -> SMT sort
	cells   map[*Cell]Val
	top     string // allocator high-water mark
	trace   []string
	written map[string]bool // heaps written so far (for frame reporting)
	ghost   map[string]string
	boolDef map[string]string // definitions of Bool constants (for cheap branch pruning)
	factSet map[string]bool
}

func (st *State) fork() *State {
	n := &State{
		decls:   append([]string(nil), st.decls...),
		declSet: map[string]bool{},
		facts:   append([]string(nil), st.facts...),
		heaps:   map[string]string{},
		hsort:   st.hsort,
		cells:   map[*Cell]Val{},
		top:     st.top,
		trace:   append([]string(nil), st.trace...),
		written: map[string]bool{},
		ghost:   map[string]string{},
		boolDef: map[string]string{},
		factSet: map[string]bool{},
	}
	for k, v := range st.boolDef {
		n.boolDef[k] = v
	}
	for k, v := range st.factSet {
		n.factSet[k] = v
	}
	for k, v := range st.declSet {
		n.declSet[k] = v
	}
	for k, v := range st.heaps {
		n.heaps[k] = v
	}
	for k, v := range st.cells {
		n.cells[k] = v
	}
	for k, v := range st.written {
		n.written[k] = v
	}
	for k, v := range st.ghost {
		n.ghost[k] = v
	}
	if st.callVals != nil {
		n.callVals = map[string]Val{}
		for k, v := range st.callVals {
			n.callVals[k] = v
		}
	}
	return n
}

func (st *State) declare(name, sort string) {
	if st.declSet[name] {
		return
	}
	st.declSet[name] = true
	st.decls = append(st.decls, fmt.Sprintf("(declare-fun %s () %s)", name, sort))
}

func (st *State) assume(f string) {
	if f == "" || f == "true" {
		return
	}
	st.facts = append(st.facts, f)
	if st.factSet != nil {
		st.noteFact(f, 0)
	}
}

// noteFact records atomic facts (conjuncts, resolved through Bool definitions) for branch pruning.
func (st *State) noteFact(f string, depth int) {
	if depth > 6 {
		return
	}
	st.factSet[f] = true
	if d, ok := st.boolDef[f]; ok {
		st.noteFact(d, depth+1)
	}
	if strings.HasPrefix(f, "(and ") {
		for _, p := range splitSexp(f)[1:] {
			st.noteFact(p, depth+1)
		}
	}
	if strings.HasPrefix(f, "(not ") {
		inner := f[5 : len(f)-1]
		if d, ok := st.boolDef[inner]; ok {
			st.noteFact(not(d), depth+1)
		}
		if strings.HasPrefix(inner, "(or ") {
			for _, p := range splitSexp(inner)[1:] {
				st.noteFact(not(p), depth+1)
			}
		}
	}
}

// known reports whether a condition is syntactically implied ("true"), refuted ("false") or unknown ("").
func (st *State) known(c string) string {
	def := c
	for i := 0; i < 4; i++ {
		if d, ok := st.boolDef[def]; ok {
			def = d
		} else {
			break
		}
	}
	for _, t := range []string{c, def} {
		if st.factSet[t] {
			return "true"
		}
		if st.factSet[not(t)] {
			return "false"
		}
	}
	return ""
}

func heapInit(key string) string { return key + "_0" }

// heap returns the current constant of a heap, creating its initial one lazily.
func (st *State) heap(key, sort string) string {
	if h, ok := st.heaps[key]; ok {
		return h
	}
	n := heapInit(key)
	st.hsort[key] = sort
	st.declare(n, sort)
	st.heaps[key] = n
	if ax, ok := heapInvariant[key]; ok {
		st.assume(strings.ReplaceAll(ax, "$H", n))
	} else if theSorts != nil {
		if ax := theSorts.heapInitAxiom(key, n); ax != "" {
			st.assume(ax)
		}
		if st.top != "top_0" && st.top != "" && st.top != "0" {
			// first use after allocations happened: cells created since entry are well-typed too
			if ax := theSorts.heapTypeAxiom(key, n, st.top); ax != "" {
				st.assume(ax)
			}
		}
	}
	return n
}

// heapInvariant: type invariants of initial heap contents, by heap key (filled by Sorts on demand).
var heapInvariant = map[string]string{
	"HS_byte": "(forall ((r Int) (k Int)) (! (and (<= 0 (select (select $H r) k)) (<= (select (select $H r) k) 255)) :pattern ((select (select $H r) k))))",
	"FBLEN":   "(forall ((r Int)) (! (>= (select $H r) 0) :pattern ((select $H r))))",
	"DISKLEN": "(forall ((r Int)) (! (>= (select $H r) 0) :pattern ((select $H r))))",
	"DISK":    "(forall ((r Int) (k Int)) (! (and (<= 0 (select (select $H r) k)) (<= (select (select $H r) k) 255)) :pattern ((select (select $H r) k))))",
	"FB":      "(forall ((r Int) (k Int)) (! (and (<= 0 (select (select $H r) k)) (<= (select (select $H r) k) 255)) :pattern ((select (select $H r) k))))",
}

func and(parts ...string) string {
	var ps []string
	for _, p := range parts {
		if p == "" || p == "true" {
			continue
		}
		if p == "false" {
			return "false"
		}
		ps = append(ps, p)
	}
	switch len(ps) {
	case 0:
		return "true"
	case 1:
		return ps[0]
	}
	return "(and " + strings.Join(ps, " ") + ")"
}

func or(parts ...string) string {
	var ps []string
	for _, p := range parts {
		if p == "" || p == "false" {
			continue
		}
		if p == "true" {
			return "true"
		}
		ps = append(ps, p)
	}
	switch len(ps) {
	case 0:
		return "false"
	case 1:
		return ps[0]
	}
	return "(or " + strings.Join(ps, " ") + ")"
}

func not(p string) string {
	switch p {
	case "true":
		return "false"
	case "false":
		return "true"
	}
	if strings.HasPrefix(p, "(not ") && balanced(p[5:len(p)-1]) {
		return p[5 : len(p)-1]
	}
	return "(not " + p + ")"
}

func balanced(s string) bool {
	d := 0
	for _, c := range s {
		if c == '(' {
			d++
		} else if c == ')' {
			d--
			if d < 0 {
				return false
			}
		}
	}
	return d == 0
}

func implies(a, b string) string {
	if a == "true" {
		return b
	}
	if a == "false" || b == "true" {
		return "true"
	}
	return "(=> " + a + " " + b + ")"
}

func sx(op string, args ...string) string {
	return "(" + op + " " + strings.Join(args, " ") + ")"
}

func ite(c, a, b string) string {
	if c == "true" {
		return a
	}
	if c == "false" {
		return b
	}
	if a == b {
		return a
	}
	return "(ite " + c + " " + a + " " + b + ")"
}

func isLit(s string) bool {
	if s == "" {
		return false
	}
	i := 0
	if s[0] == '-' {
		i = 1
	}
	if i >= len(s) {
		return false
	}
	for ; i < len(s); i++ {
		if s[i] < '0' || s[i] > '9' {
			return false
		}
	}
	return true
}

// lit renders an integer literal in SMT syntax.
func lit(s string) string {
	if strings.HasPrefix(s, "-") {
		return "(- " + s[1:] + ")"
	}
	return s
}

func plus(a, b string) string {
	if b == "0" {
		return a
	}
	if a == "0" {
		return b
	}
	if x, ok := litVal(a); ok {
		if y, ok := litVal(b); ok {
			return lit(fmt.Sprint(x + y))
		}
	}
	return "(+ " + a + " " + b + ")"
}

// splitSexp splits "(op a b c)" into its top-level parts (op, a, b, c).
func splitSexp(s string) []string {
	if len(s) < 2 || s[0] != '(' || s[len(s)-1] != ')' {
		return nil
	}
	s = s[1 : len(s)-1]
	var parts []string
	d := 0
	start := -1
	for i := 0; i < len(s); i++ {
		c := s[i]
		switch {
		case c == '(':
			if d == 0 && start < 0 {
				start = i
			}
			d++
		case c == ')':
			d--
			if d == 0 {
				parts = append(parts, s[start:i+1])
				start = -1
			}
		case c == ' ' || c == '\n' || c == '\t':
			if d == 0 && start >= 0 {
				parts = append(parts, s[start:i])
				start = -1
			}
		default:
			if d == 0 && start < 0 {
				start = i
			}
		}
	}
	if start >= 0 {
		parts = append(parts, s[start:])
	}
	return parts
}

func sliceField(s string, idx int, acc string) string {
	if strings.HasPrefix(s, "(mk_slice ") {
		if p := splitSexp(s); len(p) == 5 {
			return p[idx]
		}
	}
	return "(" + acc + " " + s + ")"
}

func litVal(s string) (int64, bool) {
	if !isLit(s) {
		return 0, false
	}
	var v int64
	if _, err := fmt.Sscan(s, &v); err != nil {
		return 0, false
	}
	return v, true
}

func minus(a, b string) string {
	if b == "0" {
		return a
	}
	if x, ok := litVal(a); ok {
		if y, ok := litVal(b); ok {
			return lit(fmt.Sprint(x - y))
		}
	}
	return "(- " + a + " " + b + ")"
}
