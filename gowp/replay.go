package main

// Replay of solver counterexamples against the real code.
//
// For a failed obligation whose function takes scalar / struct / slice inputs, the model's
// input values are read back with (get-value ...), a Go test calling the REAL function with
// those inputs is injected through `go test -overlay` (the repository is not touched), and the
// observed outputs are asserted back into the obligation's script: if the script stays
// satisfiable the real outputs violate the failed clause on those inputs (confirmed); a panic
// observed for a safety obligation confirms it directly.

import (
	"context"
	"encoding/json"
	"fmt"
	"go/types"
	"os"
	"os/exec"
	"path/filepath"
	"strings"
	"time"

	"golang.org/x/tools/go/ssa"
)

type replayParam struct {
	name  string
	typ   types.Type
	val   Val
	terms map[string]string // query label -> SMT term
}

const replayMaxElems = 12

// replayQueries builds the ground terms describing one input value. ok=false: not replayable.
func (x *Exec) replayQueries(prefix string, v Val, t types.Type, q map[string]string, depth int) bool {
	ss := x.P.ss
	if depth > 3 {
		return false
	}
	switch ss.kindOf(t) {
	case KInt, KBool, KFloat:
		q[prefix] = v.T
		return true
	case KStruct:
		s := ss.structSort(t)
		for i, f := range s.Fields {
			fv := x.mkVal(sx(f.Name, v.T), f.Typ)
			if !x.replayQueries(prefix+"."+s.Typ.Field(i).Name(), fv, f.Typ, q, depth+1) {
				return false
			}
		}
		return true
	case KSlice:
		if isString(t) {
			return false
		}
		el := elemOfSliceType(t)
		key, hel := x.sliceHeap(t)
		x.entrySt.heap(key, ss.heapSort(hel, true))
		q[prefix+".len"] = sLen(v.T)
		q[prefix+".nil"] = sx("=", sArr(v.T), "0")
		for i := 0; i < replayMaxElems; i++ {
			cell := sx("select", sx("select", heapInit(key), sArr(v.T)), plus(sOff(v.T), fmt.Sprint(i)))
			if !x.replayQueries(fmt.Sprintf("%s[%d]", prefix, i), x.mkVal(cell, el), el, q, depth+1) {
				return false
			}
		}
		return true
	case KPtr:
		pt := t.Underlying().(*types.Pointer)
		if ss.kindOf(pt.Elem()) != KStruct && ss.kindOf(pt.Elem()) != KInt && ss.kindOf(pt.Elem()) != KFloat {
			return false
		}
		if v.Ptr == nil || v.Ptr.Heap == "" {
			return false
		}
		q[prefix+".nil"] = sx("=", v.Ptr.Root, "0")
		x.entrySt.heap(v.Ptr.Heap, ss.heapSort(pt.Elem(), false))
		cell := sx("select", heapInit(v.Ptr.Heap), v.Ptr.Root)
		return x.replayQueries(prefix+".*", x.mkVal(cell, pt.Elem()), pt.Elem(), q, depth+1)
	}
	return false
}

// goLiteral renders a Go expression of type t from queried model values.
func goLiteral(ss *Sorts, prefix string, t types.Type, vals map[string]string, qual types.Qualifier) (string, bool) {
	ts := types.TypeString(t, qual)
	switch ss.kindOf(t) {
	case KInt:
		v, ok := vals[prefix]
		if !ok {
			return "", false
		}
		return fmt.Sprintf("%s(%s)", ts, v), true
	case KBool:
		v, ok := vals[prefix]
		return v, ok
	case KFloat:
		v, ok := vals[prefix]
		if !ok {
			return "", false
		}
		if w, _ := isFloat(t); w == 32 {
			return fmt.Sprintf("%s(math.Float32frombits(%s))", ts, v), true
		}
		return fmt.Sprintf("%s(math.Float64frombits(%s))", ts, v), true
	case KStruct:
		st := t.Underlying().(*types.Struct)
		var parts []string
		for i := 0; i < st.NumFields(); i++ {
			l, ok := goLiteral(ss, prefix+"."+st.Field(i).Name(), st.Field(i).Type(), vals, qual)
			if !ok {
				return "", false
			}
			parts = append(parts, st.Field(i).Name()+": "+l)
		}
		return ts + "{" + strings.Join(parts, ", ") + "}", true
	case KSlice:
		if vals[prefix+".nil"] == "true" {
			return ts + "(nil)", true
		}
		var n int
		if _, err := fmt.Sscan(vals[prefix+".len"], &n); err != nil || n > replayMaxElems || n < 0 {
			return "", false
		}
		el := elemOfSliceType(t)
		var parts []string
		for i := 0; i < n; i++ {
			l, ok := goLiteral(ss, fmt.Sprintf("%s[%d]", prefix, i), el, vals, qual)
			if !ok {
				return "", false
			}
			parts = append(parts, l)
		}
		return ts + "{" + strings.Join(parts, ", ") + "}", true
	case KPtr:
		if vals[prefix+".nil"] == "true" {
			return "(" + ts + ")(nil)", true
		}
		pt := t.Underlying().(*types.Pointer)
		l, ok := goLiteral(ss, prefix+".*", pt.Elem(), vals, qual)
		if !ok {
			return "", false
		}
		if ss.kindOf(pt.Elem()) == KStruct {
			return "&" + l, true
		}
		return fmt.Sprintf("func() %s { v := %s; return &v }()", ts, l), true
	}
	return "", false
}

func smtValueToGo(v string) string {
	v = strings.TrimSpace(v)
	if strings.HasPrefix(v, "(- ") {
		return "-" + strings.TrimSuffix(strings.TrimPrefix(v, "(- "), ")")
	}
	return v
}

// parseGetValue parses "((term value) (term value) ...)" in order.
func parseGetValue(out string) []string {
	i := strings.Index(out, "((")
	if i < 0 {
		return nil
	}
	t := parseSexp(out[i:])
	if t == nil {
		return nil
	}
	var vals []string
	for _, k := range t.kids {
		if len(k.kids) == 2 {
			vals = append(vals, smtValueToGo(k.kids[1].String()))
		}
	}
	return vals
}

// tryReplay attempts to confirm a failed obligation on the real code.
func tryReplay(P *Prog, o *Obligation, _ map[string]string, repo string) (bool, map[string]interface{}) {
	detail := map[string]interface{}{}
	if o.replay == nil {
		detail["status"] = "not-replayed"
		detail["reason"] = "inputs of this function are not of a replayable shape (handles, files, interfaces) or the obligation is not at function level"
		return false, detail
	}
	rp := o.replay
	// 1. model values of the inputs
	var labels, terms []string
	for _, p := range rp.params {
		for _, l := range sortedKeys(p.terms) {
			labels = append(labels, l)
			terms = append(terms, p.terms[l])
		}
	}
	script := strings.Replace(o.script(P, false), "(check-sat)\n", "", 1)
	decl := ""
	for _, k := range rp.heapDecls {
		f := strings.Fields(k)
		if len(f) > 1 && !strings.Contains(script, "(declare-fun "+f[1]+" ") {
			decl += k + "\n"
		}
	}
	q := script + decl + "(check-sat)\n(get-value (" + strings.Join(terms, " ") + "))\n"
	verdict, out, _ := runSolver(context.Background(), solvers[0], q, 15000)
	if verdict != "sat" {
		verdict, out, _ = runSolver(context.Background(), solvers[2], q, 15000)
	}
	if verdict != "sat" {
		detail["status"] = "no-model"
		detail["reason"] = "the solvers gave no model for this obligation (" + verdict + ")"
		return false, detail
	}
	got := parseGetValue(out)
	if len(got) != len(terms) {
		detail["status"] = "no-model"
		detail["reason"] = "could not read the model values back"
		return false, detail
	}
	vals := map[string]string{}
	for i, l := range labels {
		vals[l] = got[i]
	}
	detail["inputs"] = vals
	// 2. Go test calling the real function
	fn := rp.fn
	pkg := fn.Pkg.Pkg
	qual := types.RelativeTo(pkg)
	var args []string
	for _, p := range rp.params {
		l, ok := goLiteral(P.ss, p.name, p.typ, vals, qual)
		if !ok {
			detail["status"] = "not-replayed"
			detail["reason"] = "model input " + p.name + " is too large or of an unsupported shape"
			return false, detail
		}
		args = append(args, l)
	}
	call := ""
	if fn.Signature.Recv() != nil {
		call = "(" + args[0] + ")." + fn.Name() + "(" + strings.Join(args[1:], ", ") + ")"
	} else {
		call = fn.Name() + "(" + strings.Join(args, ", ") + ")"
	}
	res := fn.Signature.Results()
	var lhs, prints []string
	for i := 0; i < res.Len(); i++ {
		lhs = append(lhs, fmt.Sprintf("r%d", i))
		rt := res.At(i).Type()
		switch P.ss.kindOf(rt) {
		case KInt:
			prints = append(prints, fmt.Sprintf(`fmt.Printf("GOWP-RESULT %d int %%d\n", int64(r%d))`, i, i))
		case KBool:
			prints = append(prints, fmt.Sprintf(`fmt.Printf("GOWP-RESULT %d bool %%v\n", r%d)`, i, i))
		case KFloat:
			if w, _ := isFloat(rt); w == 32 {
				prints = append(prints, fmt.Sprintf(`fmt.Printf("GOWP-RESULT %d float %%d\n", math.Float32bits(float32(r%d)))`, i, i))
			} else {
				prints = append(prints, fmt.Sprintf(`fmt.Printf("GOWP-RESULT %d float %%d\n", math.Float64bits(float64(r%d)))`, i, i))
			}
		case KErr:
			prints = append(prints, fmt.Sprintf(`fmt.Printf("GOWP-RESULT %d error %%v %%q\n", r%d == nil, fmt.Sprint(r%d))`, i, i, i))
		case KSlice:
			prints = append(prints, fmt.Sprintf(`fmt.Printf("GOWP-RESULT %d len %%d\n", len(r%d))`, i, i))
		case KPtr:
			prints = append(prints, fmt.Sprintf(`fmt.Printf("GOWP-RESULT %d ptr %%v\n", r%d == nil)`, i, i))
		default:
			prints = append(prints, fmt.Sprintf(`_ = r%d`, i))
		}
	}
	assign := ""
	if len(lhs) > 0 {
		assign = strings.Join(lhs, ", ") + " := "
	}
	src := fmt.Sprintf(`package %s

import (
	"fmt"
	"math"
	"testing"
)

var _ = math.Float64frombits

func TestGowpReplay(t *testing.T) {
	defer func() {
		if r := recover(); r != nil {
			fmt.Printf("GOWP-PANIC %%v\n", r)
		}
	}()
	%s%s
	%s
}
`, pkg.Name(), assign, call, strings.Join(prints, "\n\t"))
	detail["test_source"] = src
	tmp, err := os.MkdirTemp("", "gowp-replay")
	if err != nil {
		detail["status"] = "error"
		return false, detail
	}
	defer os.RemoveAll(tmp)
	rel := strings.TrimPrefix(strings.TrimPrefix(pkg.Path(), repoPath), "/")
	pkgDir := filepath.Join(repo, rel)
	testFile := filepath.Join(tmp, "gowp_replay_test.go")
	os.WriteFile(testFile, []byte(src), 0644)
	ov, _ := json.Marshal(map[string]interface{}{"Replace": map[string]string{filepath.Join(pkgDir, "gowp_replay_test.go"): testFile}})
	ovFile := filepath.Join(tmp, "overlay.json")
	os.WriteFile(ovFile, ov, 0644)
	ctx, cancel := context.WithTimeout(context.Background(), 120*time.Second)
	defer cancel()
	cmd := exec.CommandContext(ctx, "bash", "-c", fmt.Sprintf("ulimit -v 4000000; cd %q && go test -overlay %q -vet=off -count=1 -timeout 60s -run '^TestGowpReplay$' .", pkgDir, ovFile))
	cmd.Env = append(os.Environ(), "GOFLAGS=-mod=mod", "GOPROXY=off", "GOSUMDB=off", "GOTOOLCHAIN=local")
	outb, _ := cmd.CombinedOutput()
	outs := string(outb)
	detail["test_output"] = truncate(outs, 3000)
	detail["test_cmd"] = "go test -overlay <ov.json> -vet=off -count=1 -timeout 60s -run '^TestGowpReplay$' . (in " + pkgDir + ")"
	panicked := strings.Contains(outs, "GOWP-PANIC") || strings.Contains(outs, "panic:")
	if strings.Contains(outs, "[build failed]") || strings.Contains(outs, "cannot use") {
		detail["status"] = "replay-test-did-not-build"
		return false, detail
	}
	if panicked {
		detail["status"] = "real-code-panicked"
		if strings.HasPrefix(o.Kind, "safety") || strings.HasPrefix(o.Kind, "pre") || o.Kind == "post" {
			detail["confirmed_by"] = "the real function panics on the model's inputs"
			return true, detail
		}
		return false, detail
	}
	if o.Kind != "post" {
		detail["status"] = "real-code-did-not-panic"
		return false, detail
	}
	// 3. assert inputs and observed outputs back into the script
	var extra []string
	for i, l := range labels {
		extra = append(extra, fmt.Sprintf("(assert (= %s %s))", terms[i], lit(vals[l])))
	}
	observed := map[string]string{}
	for _, ln := range strings.Split(outs, "\n") {
		f := strings.Fields(ln)
		if len(f) >= 4 && f[0] == "GOWP-RESULT" {
			var idx int
			fmt.Sscan(f[1], &idx)
			if idx >= len(rp.rets) {
				continue
			}
			rt := rp.rets[idx]
			observed[f[1]] = strings.Join(f[2:], " ")
			switch f[2] {
			case "int", "float":
				extra = append(extra, fmt.Sprintf("(assert (= %s %s))", rt.T, lit(f[3])))
			case "bool":
				extra = append(extra, fmt.Sprintf("(assert (= %s %s))", rt.T, f[3]))
			case "error":
				if f[3] == "true" {
					extra = append(extra, fmt.Sprintf("(assert (= %s ErrNil))", rt.T))
				} else {
					extra = append(extra, fmt.Sprintf("(assert (not (= %s ErrNil)))", rt.T))
				}
			case "len":
				extra = append(extra, fmt.Sprintf("(assert (= %s %s))", sLen(rt.T), f[3]))
			case "ptr":
				if rt.Ptr != nil {
					if f[3] == "true" {
						extra = append(extra, fmt.Sprintf("(assert (= %s 0))", rt.Ptr.Root))
					} else {
						extra = append(extra, fmt.Sprintf("(assert (not (= %s 0)))", rt.Ptr.Root))
					}
				}
			}
		}
	}
	detail["observed_outputs"] = observed
	q2 := script + decl + strings.Join(extra, "\n") + "\n(check-sat)\n"
	v2, _, _ := runSolver(context.Background(), solvers[0], q2, 15000)
	if v2 == "unknown" {
		v2, _, _ = runSolver(context.Background(), solvers[2], q2, 15000)
	}
	detail["oracle"] = "failed clause evaluated by the solver on the model inputs and the outputs observed from the real code: " + v2
	if v2 == "sat" {
		detail["status"] = "confirmed"
		detail["confirmed_by"] = "the real function's outputs on the model's inputs violate the clause"
		return true, detail
	}
	detail["status"] = "not-reproduced"
	return false, detail
}

type replayInfo struct {
	fn        *ssa.Function
	params    []replayParam
	rets      []Val
	heapDecls []string
}

// prepareReplay records what is needed to replay obligations of the verified function.
func (x *Exec) prepareReplay(st *State, fr *Frame) *replayInfo {
	if x.fn.Parent() != nil || len(x.fn.FreeVars) > 0 {
		return nil
	}
	x.entrySt = st
	ri := &replayInfo{fn: x.fn}
	for _, p := range x.fn.Params {
		v := fr.vals[p]
		q := map[string]string{}
		if !x.replayQueries(p.Name(), v, p.Type(), q, 0) {
			return nil
		}
		ri.params = append(ri.params, replayParam{name: p.Name(), typ: p.Type(), val: v, terms: q})
	}
	// initial heaps mentioned by the queries must be declared in the replay script
	for key, sort := range st.hsort {
		ri.heapDecls = append(ri.heapDecls, fmt.Sprintf("(declare-fun %s () %s)", heapInit(key), sort))
	}
	return ri
}
