package main

// Replay of solver models against the real code (go test -overlay).

func tryReplay(P *Prog, o *Obligation, inputs map[string]string, repo string) (bool, map[string]interface{}) {
	return false, map[string]interface{}{"status": "not-replayed", "reason": "no replay generator for this function shape yet"}
}
