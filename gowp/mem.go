package main

// Memory model: structural pointers over typed heaps.

import (
	"hash/fnv"
	"fmt"
	"go/types"
	"sort"
	"strings"
)

func sortedStructNames(P *Prog) []string {
	var ns []string
	for n := range P.structTypes {
		ns = append(ns, n)
	}
	sort.Strings(ns)
	return ns
}

func (x *Exec) freshName(base string) string {
	x.fresh++
	return fmt.Sprintf("%s_%d", sanitize(base), x.fresh)
}

// freshConst declares a fresh SMT constant of the sort of Go type t and
// assumes its type invariant.
func (x *Exec) freshVal(st *State, base string, t types.Type) Val {
	ss := x.P.ss
	k := ss.kindOf(t)
	if k == KTuple {
		tu := t.(*types.Tuple)
		var vs []Val
		for i := 0; i < tu.Len(); i++ {
			vs = append(vs, x.freshVal(st, fmt.Sprintf("%s_%d", base, i), tu.At(i).Type()))
		}
		return Val{K: KTuple, Tup: vs, Typ: t}
	}
	n := x.freshName(base)
	st.declare(n, ss.sortOf(t))
	st.assume(ss.rangeFact(t, n, st.top))
	return x.mkVal(n, t)
}

// mkVal wraps an SMT term of Go type t.
func (x *Exec) mkVal(term string, t types.Type) Val {
	ss := x.P.ss
	k := ss.kindOf(t)
	v := Val{K: k, T: term, Typ: t}
	if k == KPtr {
		v.Ptr = x.ptrFromRoot(term, t.Underlying().(*types.Pointer).Elem())
	}
	return v
}

// Interior pointers to a struct-typed field of a repository struct (e.g. &w.header) are given an
// SMT encoding so that they can be returned, stored and loaded: the pointer to field #f of the
// object at root r of container heap C is the negative number -(64*r + site), where site numbers
// the (C, f) pair. Real objects have positive roots and nil is 0.
type interiorSite struct {
	container types.Type // struct type holding the field
	field     int
	id        int
}

func (x *Exec) sitesFor(elem types.Type) []interiorSite { return x.P.sitesFor(elem) }

func (P *Prog) sitesFor(elem types.Type) []interiorSite {
	x := &Exec{P: P}
	key := elem.String()
	P.siteMu.Lock()
	defer P.siteMu.Unlock()
	if s, ok := x.P.sites[key]; ok {
		return s
	}
	var out []interiorSite
	id := 0
	for _, name := range sortedStructNames(x.P) {
		st := x.P.structTypes[name]
		us := st.Underlying().(*types.Struct)
		for i := 0; i < us.NumFields(); i++ {
			if types.Identical(us.Field(i).Type(), elem) {
				id++
				out = append(out, interiorSite{st, i, id})
			}
		}
	}
	if x.P.sites == nil {
		x.P.sites = map[string][]interiorSite{}
	}
	x.P.sites[key] = out
	return out
}

func (x *Exec) ptrFromRoot(root string, elem types.Type) *Pointer {
	ss := x.P.ss
	if a, ok := elem.Underlying().(*types.Array); ok {
		return &Pointer{Heap: ss.heapKey(a.Elem(), true), Rows: true, Elem: a.Elem(), Root: root, Idx: "0", ArrLen: a.Len(), IsArr: true}
	}
	if ss.kindOf(elem) == KOpaque {
		if _, isStruct := elem.Underlying().(*types.Struct); isStruct || true {
			return &Pointer{Heap: "", Elem: elem, Root: root}
		}
	}
	p := &Pointer{Heap: ss.heapKey(elem, false), Elem: elem, Root: root}
	if ss.kindOf(elem) == KStruct && len(x.sitesFor(elem)) > 0 && !isLit(root) {
		p.Enc = true
	}
	return p
}

// termOf gives the SMT term of a value for storing in memory / passing to SMT.
func (x *Exec) termOf(v Val) string {
	switch v.K {
	case KPtr:
		p := v.Ptr
		if p == nil {
			return v.T
		}
		if p.Local == nil && !p.Rows && len(p.Path) == 1 && !p.Enc {
			// pointer to a struct-typed field of a heap object: use the interior-site encoding
			ft := pathType(p.Elem, p.Path)
			for _, s := range x.sitesFor(ft) {
				if types.Identical(s.container, p.Elem) && s.field == p.Path[0] {
					return sx("-", "0", sx("+", sx("*", "64", p.Root), fmt.Sprint(s.id)))
				}
			}
		}
		if p.Local != nil || len(p.Path) > 0 || (p.Rows && p.Idx != "0") {
			bail("interior or local pointer needs an SMT encoding (type %v)", v.Typ)
		}
		return p.Root
	case KTuple, KFunc:
		bail("tuple/closure value needs an SMT encoding")
	case KIface:
		if v.T != "" {
			return v.T
		}
		bail("interface value needs an SMT encoding")
	}
	return v.T
}

func (x *Exec) nilOf(t types.Type) Val {
	ss := x.P.ss
	return x.mkVal(ss.zero(t), t)
}

// ---- loads and stores

func (x *Exec) cellTerm(st *State, p *Pointer) string {
	ss := x.P.ss
	if p.Local != nil {
		v, ok := st.cells[p.Local]
		if !ok {
			bail("read of uninitialised local cell")
		}
		return x.termOf(v)
	}
	if p.Heap == "" && p.Root != "" && len(p.Path) == 0 && ss.kindOf(p.Elem) == KOpaque {
		return sx("select", st.heap("H_opq", "(Array Int Int)"), p.Root)
	}
	if p.Heap == "" {
		bail("dereference of opaque pointer to %v", p.Elem)
	}
	h := st.heap(p.Heap, ss.heapSort(p.Elem, p.Rows))
	if p.Rows {
		return sx("select", sx("select", h, p.Root), p.Idx)
	}
	if p.Enc {
		return x.nameCell(st, p, x.encCell(p, func(key, sort string) string { return st.heap(key, sort) }), nil)
	}
	return sx("select", h, p.Root)
}

// nameCell introduces a constant for the (large, ite-laden) term of an interior-encoded cell, so that
// it can occur in quantifier patterns and formulas stay small. Not done under binders.
func (x *Exec) nameCell(st *State, p *Pointer, term string, bound map[string]bool) string {
	if st == nil || !strings.HasPrefix(term, "(ite ") {
		return term
	}
	if len(bound) > 0 {
		t := parseSexp(term)
		for b := range bound {
			if t != nil && t.mentions(b) {
				return term
			}
		}
	}
	if strings.Contains(term, " q_") || strings.Contains(term, "(q_") || strings.Contains(term, " qi_") {
		return term // mentions some quantified variable
	}
	hh := fnv.New64a()
	hh.Write([]byte(term))
	name := fmt.Sprintf("cell_%x", hh.Sum64())
	if !st.declSet[name] {
		st.declare(name, x.P.ss.sortOf(p.Elem))
		st.assume(sx("=", name, term))
	}
	return name
}

// encCell: the object a possibly interior-encoded pointer designates. The case split over interior
// sites lives in an axiomatised function deref_<T>(heaps..., p), so that the term can be used in
// quantifier patterns and formulas stay small.
func (x *Exec) encCell(p *Pointer, heapOf func(key, sort string) string) string {
	ss := x.P.ss
	sites := x.sitesFor(p.Elem)
	hs := ss.heapSort(p.Elem, false)
	h := heapOf(p.Heap, hs)
	if len(sites) == 0 {
		return sx("select", h, p.Root)
	}
	name := "deref_" + sanitize(ss.heapKey(p.Elem, false))
	args := []string{h}
	x.P.mu.Lock()
	_, have := x.P.derefDefs[name]
	x.P.mu.Unlock()
	var params []string
	body := "(select h0 p)"
	params = append(params, fmt.Sprintf("(h0 %s)", hs))
	for i, s := range sites {
		ck := ss.heapKey(s.container, false)
		csort := ss.heapSort(s.container, false)
		args = append(args, heapOf(ck, csort))
		if !have {
			cs := ss.structSort(s.container)
			hn := fmt.Sprintf("h%d", i+1)
			params = append(params, fmt.Sprintf("(%s %s)", hn, csort))
			field := sx(cs.Fields[s.field].Name, sx("select", hn, "(div (- 0 p) 64)"))
			body = ite(and("(< p 0)", sx("=", "(mod (- 0 p) 64)", fmt.Sprint(s.id))), field, body)
		}
	}
	if !have {
		sorts, names := []string{hs}, []string{"h0"}
		for i, s := range sites {
			names = append(names, fmt.Sprintf("h%d", i+1))
			sorts = append(sorts, ss.heapSort(s.container, false))
		}
		app := "(" + name + " " + strings.Join(names, " ") + " p)"
		def := fmt.Sprintf("(declare-fun %s (%s Int) %s)\n(assert (forall (%s (p Int)) (! (= %s %s) :pattern (%s))))\n",
			name, strings.Join(sorts, " "), ss.sortOf(p.Elem), strings.Join(params, " "), app, body, app)
		x.P.mu.Lock()
		if x.P.derefDefs == nil {
			x.P.derefDefs = map[string]string{}
		}
		x.P.derefDefs[name] = def
		x.P.mu.Unlock()
	}
	args = append(args, p.Root)
	return sx(name, args...)
}

// pathType returns the type reached by following path from t.
func pathType(t types.Type, path []int) types.Type {
	for _, f := range path {
		t = t.Underlying().(*types.Struct).Field(f).Type()
	}
	return t
}

func (x *Exec) load(st *State, p *Pointer) Val {
	ss := x.P.ss
	if p.IsArr && len(p.Path) == 0 {
		bail("load of whole array value")
	}
	if p.Local != nil && len(p.Path) == 0 {
		v, ok := st.cells[p.Local]
		if !ok {
			bail("read of uninitialised local cell")
		}
		return v
	}
	term := x.cellTerm(st, p)
	t := p.Elem
	for _, f := range p.Path {
		s := ss.structSort(t)
		term = sx(s.Fields[f].Name, term)
		t = s.Fields[f].Typ
	}
	return x.mkVal(term, t)
}

// updatePath returns the term of the cell value with the sub-object at path replaced by nv.
func (x *Exec) updatePath(cell string, t types.Type, path []int, nv string) string {
	if len(path) == 0 {
		return nv
	}
	ss := x.P.ss
	s := ss.structSort(t)
	parts := []string{"mk_" + s.Name}
	for i, f := range s.Fields {
		cur := sx(f.Name, cell)
		if i == path[0] {
			cur = x.updatePath(cur, f.Typ, path[1:], nv)
		}
		parts = append(parts, cur)
	}
	return "(" + strings.Join(parts, " ") + ")"
}

func (x *Exec) store(st *State, p *Pointer, v Val) {
	ss := x.P.ss
	if p.Local != nil {
		if len(p.Path) == 0 {
			st.cells[p.Local] = v
			return
		}
		old, ok := st.cells[p.Local]
		var oldT string
		if !ok {
			oldT = ss.zero(p.Local.typ)
		} else {
			oldT = x.termOf(old)
		}
		st.cells[p.Local] = x.mkVal(x.updatePath(oldT, p.Local.typ, p.Path, x.termOf(v)), p.Local.typ)
		return
	}
	if p.Heap == "" && p.Root != "" && len(p.Path) == 0 && ss.kindOf(p.Elem) == KOpaque {
		// a variable of an opaque type (time.Time, io.Writer ...): its value is an uninterpreted Int
		h := st.heap("H_opq", "(Array Int Int)")
		x.setHeap(st, "H_opq", "(Array Int Int)", sx("store", h, p.Root, x.termOf(v)))
		return
	}
	if p.Heap == "" {
		bail("store through opaque pointer to %v", p.Elem)
	}
	if p.Enc {
		// a pointer that may designate a field of another object: stores are only modelled for real objects
		bail("store through a pointer that may be interior (%v)", p.Elem)
	}
	nv := x.termOf(v)
	hs := ss.heapSort(p.Elem, p.Rows)
	h := st.heap(p.Heap, hs)
	var nh string
	if p.Rows {
		row := sx("select", h, p.Root)
		cell := sx("select", row, p.Idx)
		nh = sx("store", h, p.Root, sx("store", row, p.Idx, x.updatePath(cell, p.Elem, p.Path, nv)))
	} else {
		cell := sx("select", h, p.Root)
		nh = sx("store", h, p.Root, x.updatePath(cell, p.Elem, p.Path, nv))
	}
	x.setHeap(st, p.Heap, hs, nh)
}

func (x *Exec) setHeap(st *State, key, sort, term string) {
	n := x.freshName(key)
	st.declare(n, sort)
	st.assume(sx("=", n, term))
	st.hsort[key] = sort
	st.heaps[key] = n
	st.written[key] = true
}

// havocHeap replaces a heap by a fresh unconstrained constant.
func (x *Exec) havocHeap(st *State, key string) string {
	sort := st.hsort[key]
	if sort == "" {
		bail("havoc of unknown heap %s", key)
	}
	n := x.freshName(key)
	st.declare(n, sort)
	st.heaps[key] = n
	st.written[key] = true
	return n
}

// allocRoot returns a fresh non-nil root above the allocator top.
func (x *Exec) allocRoot(st *State, base string) string {
	n := x.freshName(base)
	st.declare(n, "Int")
	st.assume(sx("=", n, sx("+", st.top, "1")))
	st.assume(sx("<=", n, "4611686018427387904")) // fewer than 2^62 objects are ever allocated
	nt := x.freshName("top")
	st.declare(nt, "Int")
	st.assume(sx("=", nt, n))
	st.top = nt
	return n
}

// slice helpers
func sArr(s string) string { return sliceField(s, 1, "s_arr") }
func sOff(s string) string { return sliceField(s, 2, "s_off") }
func sLen(s string) string { return sliceField(s, 3, "s_len") }
func sCap(s string) string { return sliceField(s, 4, "s_cap") }

func elemOfSliceType(t types.Type) types.Type {
	switch u := t.Underlying().(type) {
	case *types.Slice:
		return u.Elem()
	case *types.Basic:
		if isString(t) {
			return types.Typ[types.Uint8]
		}
	}
	return nil
}

func (x *Exec) sliceHeap(t types.Type) (string, types.Type) {
	if isString(t) {
		return "HS_strbytes", types.Typ[types.Uint8]
	}
	el := elemOfSliceType(t)
	return x.P.ss.heapKey(el, true), el
}

// elemPtr builds the pointer to element i of slice value s.
func (x *Exec) elemPtr(s Val, i string) *Pointer {
	key, el := x.sliceHeap(s.Typ)
	return &Pointer{Heap: key, Rows: true, Elem: el, Root: sArr(s.T), Idx: plus(sOff(s.T), i)}
}
