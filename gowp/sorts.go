package main

// Mapping of Go types to SMT sorts, datatype declarations for structs,
// integer ranges and type invariants.

import (
	"fmt"
	"go/types"
	"math/big"
	"sort"
	"strings"
)

const repoPath = "github.com/hnakamur/whispertool"

// Kind classifies how a Go value is represented in the symbolic state.
type Kind int

const (
	KInt    Kind = iota // SMT Int; Go integer (range from Typ) or spec integer (Typ nil)
	KBool               // SMT Bool
	KFloat              // SMT Int holding the IEEE bit pattern
	KStruct             // SMT datatype value
	KSlice              // SMT Slice datatype (also strings)
	KPtr                // Go-side structural pointer (Ptr) or SMT Int root when opaque
	KErr                // SMT Err datatype
	KOpaque             // SMT Int standing for a value we do not look into
	KTuple              // Go-side tuple
	KFunc               // Go-side closure
	KIface              // Go-side non-error interface wrapping a dynamic value
	KReal               // spec-only: SMT Real
	KFP                 // spec-only: SMT FloatingPoint value
	KArr                // spec-only: SMT (Array Int Int) (a row of bytes)
)

type IntRange struct {
	Lo, Hi string // decimal
	Bits   int
	Signed bool
}

func pow2(n int) string {
	return new(big.Int).Lsh(big.NewInt(1), uint(n)).String()
}

func intRange(t types.Type) (IntRange, bool) {
	b, ok := t.Underlying().(*types.Basic)
	if !ok {
		return IntRange{}, false
	}
	switch b.Kind() {
	case types.Int8:
		return IntRange{"-128", "127", 8, true}, true
	case types.Int16:
		return IntRange{"-32768", "32767", 16, true}, true
	case types.Int32:
		return IntRange{"-2147483648", "2147483647", 32, true}, true
	case types.Int64, types.Int:
		return IntRange{"-9223372036854775808", "9223372036854775807", 64, true}, true
	case types.Uint8:
		return IntRange{"0", "255", 8, false}, true
	case types.Uint16:
		return IntRange{"0", "65535", 16, false}, true
	case types.Uint32:
		return IntRange{"0", "4294967295", 32, false}, true
	case types.Uint64, types.Uint, types.Uintptr:
		return IntRange{"0", "18446744073709551615", 64, false}, true
	case types.UntypedInt, types.UntypedRune:
		return IntRange{"-9223372036854775808", "9223372036854775807", 64, true}, true
	}
	return IntRange{}, false
}

func isFloat(t types.Type) (int, bool) {
	b, ok := t.Underlying().(*types.Basic)
	if !ok {
		return 0, false
	}
	switch b.Kind() {
	case types.Float32:
		return 32, true
	case types.Float64, types.UntypedFloat:
		return 64, true
	}
	return 0, false
}

func isBool(t types.Type) bool {
	b, ok := t.Underlying().(*types.Basic)
	return ok && (b.Kind() == types.Bool || b.Kind() == types.UntypedBool)
}

func isString(t types.Type) bool {
	b, ok := t.Underlying().(*types.Basic)
	return ok && (b.Kind() == types.String || b.Kind() == types.UntypedString)
}

func isErrorType(t types.Type) bool {
	return types.Identical(t, types.Universe.Lookup("error").Type())
}

// Sorts holds the struct datatypes discovered so far.
type Sorts struct {
	structs map[string]*StructSort // by sort name
	order   []string
	heapElem map[string]types.Type // heap key -> element type
	sitesOf  func(types.Type) int  // number of struct fields of the repository holding a value of this type
}

var theSorts *Sorts

type StructSort struct {
	Name   string
	Typ    *types.Struct
	Named  types.Type
	Fields []FieldSort
}

type FieldSort struct {
	Name string // accessor name
	Typ  types.Type
}

func newSorts() *Sorts {
	theSorts = &Sorts{structs: map[string]*StructSort{}, heapElem: map[string]types.Type{}}
	return theSorts
}

// heapTypeAxiom: every cell of heap constant h satisfies its type invariant w.r.t. allocator top.
func (ss *Sorts) heapTypeAxiom(key, h, top string) string {
	t, ok := ss.heapElem[key]
	if !ok {
		return ""
	}
	rows := strings.HasPrefix(key, "HS_")
	cell := "(select " + h + " r)"
	if rows {
		cell = "(select (select " + h + " r) k)"
	}
	f := ss.rangeFact(t, cell, top)
	if f == "true" {
		return ""
	}
	if rows {
		return "(forall ((r Int) (k Int)) (! (=> (<= r " + top + ") " + f + ") :pattern (" + cell + ")))"
	}
	return "(forall ((r Int)) (! (=> (<= r " + top + ") " + f + ") :pattern (" + cell + ")))"
}

// heapInitAxiom: every cell of the initial heap satisfies its type invariant (integer ranges,
// slice header sanity, pointers below the initial allocator top).
func (ss *Sorts) heapInitAxiom(key, h string) string {
	t, ok := ss.heapElem[key]
	if !ok {
		return ""
	}
	rows := strings.HasPrefix(key, "HS_")
	var cell string
	if rows {
		cell = "(select (select " + h + " r) k)"
	} else {
		cell = "(select " + h + " r)"
	}
	f := ss.rangeFact(t, cell, "top_0")
	if f == "true" {
		return ""
	}
	// only objects that exist at function entry: contents of not-yet-allocated roots are unconstrained
	if rows {
		return "(forall ((r Int) (k Int)) (! (=> (<= r top_0) " + f + ") :pattern (" + cell + ")))"
	}
	return "(forall ((r Int)) (! (=> (<= r top_0) " + f + ") :pattern (" + cell + ")))"
}

func sanitize(s string) string {
	var b strings.Builder
	for _, r := range s {
		switch {
		case r >= 'a' && r <= 'z', r >= 'A' && r <= 'Z', r >= '0' && r <= '9', r == '_':
			b.WriteRune(r)
		default:
			b.WriteByte('_')
		}
	}
	return b.String()
}

// inRepo reports whether a named type is defined in the repository.
func inRepo(t types.Type) bool {
	n, ok := t.(*types.Named)
	if !ok {
		return false
	}
	p := n.Obj().Pkg()
	return p != nil && strings.HasPrefix(p.Path(), repoPath)
}

func (ss *Sorts) kindOf(t types.Type) Kind {
	if t == nil {
		return KInt
	}
	switch u := t.Underlying().(type) {
	case *types.Basic:
		if _, ok := intRange(t); ok {
			return KInt
		}
		if _, ok := isFloat(t); ok {
			return KFloat
		}
		if isBool(t) {
			return KBool
		}
		if isString(t) {
			return KSlice
		}
		if u.Kind() == types.UnsafePointer || u.Kind() == types.UntypedNil {
			return KOpaque
		}
		return KOpaque
	case *types.Slice:
		return KSlice
	case *types.Pointer:
		return KPtr
	case *types.Struct:
		if n, ok := t.(*types.Named); ok && !inRepo(n) {
			return KOpaque
		}
		return KStruct
	case *types.Interface:
		if isErrorType(t) {
			return KErr
		}
		return KOpaque
	case *types.Tuple:
		return KTuple
	case *types.Signature:
		return KOpaque
	}
	return KOpaque
}

// sortOf returns the SMT sort for values of Go type t when they live in SMT
// (in a heap, a datatype field or a havoced constant).
func (ss *Sorts) sortOf(t types.Type) string {
	switch ss.kindOf(t) {
	case KInt, KFloat, KOpaque, KPtr:
		return "Int"
	case KBool:
		return "Bool"
	case KSlice:
		return "Slice"
	case KErr:
		return "Err"
	case KStruct:
		return ss.structSort(t).Name
	}
	return "Int"
}

func (ss *Sorts) structSort(t types.Type) *StructSort {
	var name string
	if n, ok := t.(*types.Named); ok {
		name = "S_" + sanitize(strings.TrimPrefix(strings.TrimPrefix(n.Obj().Pkg().Path(), repoPath), "/")+"_"+n.Obj().Name())
		name = strings.Replace(name, "S__", "S_", 1)
	} else {
		name = "S_anon_" + sanitize(t.String())
	}
	if s, ok := ss.structs[name]; ok {
		return s
	}
	st := t.Underlying().(*types.Struct)
	s := &StructSort{Name: name, Typ: st, Named: t}
	ss.structs[name] = s
	for i := 0; i < st.NumFields(); i++ {
		f := st.Field(i)
		s.Fields = append(s.Fields, FieldSort{Name: fmt.Sprintf("%s_%s", name[2:], sanitize(f.Name())), Typ: f.Type()})
		if ss.kindOf(f.Type()) == KStruct {
			ss.structSort(f.Type())
		}
	}
	ss.order = append(ss.order, name) // post-order: dependencies first
	return s
}

// heapKey names the heap holding objects / array rows of element type t.
func (ss *Sorts) heapKey(t types.Type, rows bool) string {
	var base string
	switch ss.kindOf(t) {
	case KStruct:
		base = ss.structSort(t).Name
	case KInt:
		r, _ := intRange(t)
		if r.Bits == 8 && !r.Signed {
			base = "byte"
		} else if n, ok := t.(*types.Named); ok {
			base = sanitize(n.Obj().Name())
		} else {
			base = sanitize(t.String())
		}
	case KFloat:
		if n, ok := t.(*types.Named); ok {
			base = sanitize(n.Obj().Name())
		} else {
			base = sanitize(t.String())
		}
	case KBool:
		base = "bool"
	case KSlice:
		if isString(t) {
			base = "string"
		} else {
			base = "slice_" + sanitize(t.String())
		}
	case KPtr:
		base = "ptr_" + sanitize(t.String())
	case KErr:
		base = "error"
	default:
		base = "opq_" + sanitize(t.String())
	}
	key := "H_" + base
	if rows {
		key = "HS_" + base
	}
	if ss.heapElem != nil {
		if _, ok := ss.heapElem[key]; !ok {
			ss.heapElem[key] = t
		}
	}
	return key
}

func (ss *Sorts) heapSort(t types.Type, rows bool) string {
	if rows {
		return "(Array Int (Array Int " + ss.sortOf(t) + "))"
	}
	return "(Array Int " + ss.sortOf(t) + ")"
}

// zero returns the SMT term of the zero value of t.
func (ss *Sorts) zero(t types.Type) string {
	switch ss.kindOf(t) {
	case KInt, KFloat, KOpaque, KPtr:
		return "0"
	case KBool:
		return "false"
	case KSlice:
		return "(mk_slice 0 0 0 0)"
	case KErr:
		return "ErrNil"
	case KStruct:
		s := ss.structSort(t)
		if len(s.Fields) == 0 {
			return "mk_" + s.Name
		}
		parts := []string{"mk_" + s.Name}
		for _, f := range s.Fields {
			parts = append(parts, ss.zero(f.Typ))
		}
		return "(" + strings.Join(parts, " ") + ")"
	}
	return "0"
}

// rangeFact returns a formula stating that term (of Go type t) is a valid
// inhabitant of t (machine integer range, slice header sanity, pointers below top).
func (ss *Sorts) rangeFact(t types.Type, term, top string) string {
	switch ss.kindOf(t) {
	case KInt:
		r, _ := intRange(t)
		return fmt.Sprintf("(and (<= %s %s) (<= %s %s))", lit(r.Lo), term, term, r.Hi)
	case KFloat:
		w, _ := isFloat(t)
		return fmt.Sprintf("(and (<= 0 %s) (< %s %s))", term, term, pow2(w))
	case KSlice:
		if el := elemOfSliceType(t); el != nil {
			if sz := sizeofType(el); sz > 1 {
				return fmt.Sprintf("(and (slice_ok %s %s) (<= (* (s_cap %s) %d) 70368744177664))", term, top, term, sz)
			}
		}
		return fmt.Sprintf("(slice_ok %s %s)", term, top)
	case KPtr:
		if pt, ok := t.Underlying().(*types.Pointer); ok && ss.sitesOf != nil {
			if n := ss.sitesOf(pt.Elem()); n > 0 {
				// a pointer to T may also designate a T-typed field of another object (encoded -(64*root+site))
				return fmt.Sprintf("(or (and (<= 0 %s) (<= %s %s)) (and (< %s 0) (<= 1 (mod (- 0 %s) 64)) (<= (mod (- 0 %s) 64) %d) (<= 1 (div (- 0 %s) 64)) (<= (div (- 0 %s) 64) %s)))",
					term, term, top, term, term, term, n, term, term, top)
			}
		}
		return fmt.Sprintf("(and (<= 0 %s) (<= %s %s))", term, term, top)
	case KStruct:
		s := ss.structSort(t)
		var parts []string
		for _, f := range s.Fields {
			ff := ss.rangeFact(f.Typ, fmt.Sprintf("(%s %s)", f.Name, term), top)
			if ff != "true" {
				parts = append(parts, ff)
			}
		}
		if len(parts) == 0 {
			return "true"
		}
		if len(parts) == 1 {
			return parts[0]
		}
		return "(and " + strings.Join(parts, " ") + ")"
	}
	return "true"
}

func (ss *Sorts) declareDatatypes() string {
	var b strings.Builder
	for _, n := range ss.order {
		s := ss.structs[n]
		fmt.Fprintf(&b, "(declare-datatypes ((%s 0)) (((mk_%s", s.Name, s.Name)
		for _, f := range s.Fields {
			fmt.Fprintf(&b, " (%s %s)", f.Name, ss.sortOf(f.Typ))
		}
		b.WriteString("))))\n")
	}
	return b.String()
}

func sortedKeys(m map[string]string) []string {
	var ks []string
	for k := range m {
		ks = append(ks, k)
	}
	sort.Strings(ks)
	return ks
}
