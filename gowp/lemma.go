package main

// Lemmas: standalone obligations over spec-level parameters.

import (
	"fmt"
	"strings"
)

func (P *Prog) lemmaObligations(prop string) []*Obligation {
	var out []*Obligation
	for _, name := range sortedLemmaNames(P.specs.Lemmas) {
		lm := P.specs.Lemmas[name]
		if prop != "" && !hasProp(lm.Props, prop) {
			continue
		}
		out = append(out, P.lemmaObls(lm)...)
	}
	return out
}

// lemmaObligationsFor: lemmas tagged with the property plus every lemma used (transitively).
func (P *Prog) lemmaObligationsFor(prop string, used map[string]bool) []*Obligation {
	want := map[string]bool{}
	for n, lm := range P.specs.Lemmas {
		if hasProp(lm.Props, prop) {
			want[n] = true
		}
	}
	for n := range used {
		want[n] = true
	}
	for changed := true; changed; {
		changed = false
		for n := range want {
			lm := P.specs.Lemmas[n]
			if lm == nil {
				continue
			}
			for _, u := range lm.Uses {
				e := lemmaCallOf(u)
				if !want[e.Name] {
					want[e.Name] = true
					changed = true
				}
			}
		}
	}
	var out []*Obligation
	for _, n := range sortedLemmaNames(P.specs.Lemmas) {
		if want[n] {
			out = append(out, P.lemmaObls(P.specs.Lemmas[n])...)
		}
	}
	return out
}

func sortedLemmaNames(m map[string]*Lemma) []string {
	var ks []string
	for k := range m {
		ks = append(ks, k)
	}
	for i := range ks {
		for j := i + 1; j < len(ks); j++ {
			if ks[j] < ks[i] {
				ks[i], ks[j] = ks[j], ks[i]
			}
		}
	}
	return ks
}

func (P *Prog) lemmaObls(lm *Lemma) (obls []*Obligation) {
	x := &Exec{P: P, key: "lemma." + lm.Name, usedExt: map[string]bool{}, inlined: map[string]bool{}, usedContracts: map[string]bool{}}
	defer func() {
		if r := recover(); r != nil {
			if b, ok := r.(bailout); ok {
				obls = []*Obligation{{Name: "lemma." + lm.Name + ".binding", Func: "lemma." + lm.Name, Kind: "lemma", Props: lm.Props, Goal: b.msg,
					Neg: "true", Result: nil}}
				return
			}
			panic(r)
		}
	}()
	st := &State{declSet: map[string]bool{}, heaps: map[string]string{}, hsort: map[string]string{}, cells: map[*Cell]Val{},
		written: map[string]bool{}, ghost: map[string]string{}, boolDef: map[string]string{}, factSet: map[string]bool{}}
	st.declare("top_0", "Int")
	st.top = "top_0"
	env := &Env{st: st, vars: map[string]Val{}, pkg: lm.Pkg}
	env.old = st.snapshot()
	for _, p := range lm.Params {
		if p.Type == "bytes" || p.Type == "floats" {
			n := x.freshName("l_" + p.Name)
			st.declare(n, "(Array Int Int)")
			env.vars[p.Name] = Val{K: KArr, T: n}
			continue
		}
		if strings.HasPrefix(p.Type, "row:") {
			et := x.resolveType(lm.Pkg, p.Type[4:])
			n := x.freshName("l_" + p.Name)
			st.declare(n, "(Array Int "+P.ss.sortOf(et)+")")
			env.vars[p.Name] = Val{K: KArr, T: n, Typ: et}
			continue
		}
		t := x.resolveType(lm.Pkg, p.Type)
		if t == nil {
			n := x.freshName("l_" + p.Name)
			st.declare(n, "Int")
			env.vars[p.Name] = specInt(n)
		} else {
			env.vars[p.Name] = x.freshVal(st, "l_"+p.Name, t)
		}
	}
	for _, rq := range lm.Requires {
		st.assume(x.evalSpec(rq.E, env).T)
	}
	x.curLemma, x.curLemmaEnv = lm, env
	for _, u := range lm.Uses {
		x.useLemma(st, env, u, lm.Props)
	}
	x.curLemma = nil
	for i, en := range lm.Ensures {
		g := x.evalSpec(en.E, env)
		lbl := en.Label
		if lbl == "" {
			lbl = fmt.Sprintf("ensures%d", i)
		}
		x.emit(st, "lemma", lbl, en.Text, g.T, lm.Props, 0, nil)
	}
	return x.obls
}

// useLemma applies a lemma: its requires become obligations, its ensures are assumed.
func (x *Exec) useLemma(st *State, env *Env, u *Expr, props []string) {
	if u.Op == "assume" {
		st.assume(x.evalSpec(u.Args[0], env).T)
		x.usedExt["explicit assumption: "+u.Src] = true
		return
	}
	if u.Op == "noop" {
		return
	}
	if u.Op == "universal" {
		x.useLemmaUniversal(st, env, u, props)
		return
	}
	guard := "true"
	if u.Op == "guarded" {
		guard = x.evalSpec(u.Args[0], env).T
		u = u.Args[1]
	}
	if u.Op != "call" {
		bail("use expects lemma(args)")
	}
	lm := x.P.specs.Lemmas[u.Name]
	if lm == nil {
		bail("use of unknown lemma %s", u.Name)
	}
	if len(u.Args) != len(lm.Params) {
		bail("lemma %s: wrong number of arguments", u.Name)
	}
	le := &Env{st: st, vars: map[string]Val{}, pkg: lm.Pkg, old: env.old, useOld: env.useOld}
	for i, p := range lm.Params {
		le.vars[p.Name] = x.evalSpec(u.Args[i], env)
	}
	if x.curLemma == lm {
		// inductive self-use: the measure must decrease and stay non-negative
		if lm.Decreases == nil {
			bail("lemma %s uses itself without a decreases clause", lm.Name)
		}
		m0 := x.evalSpec(lm.Decreases, x.curLemmaEnv).T
		m1 := x.evalSpec(lm.Decreases, le).T
		x.emit(st, "lemma-pre", u.Name+".decreases", "measure of inductive use decreases", implies(guard, and(sx("<=", "0", m1), sx("<", m1, m0))), props, 0, nil)
	}
	for _, rq := range lm.Requires {
		g := x.evalSpec(rq.E, le)
		x.emit(st, "lemma-pre", u.Name+"."+shortText(rq.Text), "precondition of lemma "+u.Name+": "+rq.Text, implies(guard, g.T), props, 0, nil)
		st.assume(implies(guard, g.T))
	}
	for _, en := range lm.Ensures {
		st.assume(implies(guard, x.evalSpec(en.E, le).T))
	}
	x.usedLemmas = append(x.usedLemmas, u.Name)
}

// lemmaCycle reports a cycle in the lemma use graph other than a direct self-use (which needs decreases).
func (sp *Specs) lemmaCycle() string {
	state := map[string]int{}
	var visit func(n string, path []string) string
	visit = func(n string, path []string) string {
		if state[n] == 2 {
			return ""
		}
		if state[n] == 1 {
			return fmt.Sprint(append(path, n))
		}
		state[n] = 1
		lm := sp.Lemmas[n]
		if lm != nil {
			for _, u := range lm.Uses {
				e := lemmaCallOf(u)
				if e.Op != "call" || e.Name == n {
					continue
				}
				if c := visit(e.Name, append(path, n)); c != "" {
					return c
				}
			}
		}
		state[n] = 2
		return ""
	}
	for _, n := range sortedLemmaNames(sp.Lemmas) {
		if c := visit(n, nil); c != "" {
			return c
		}
	}
	return ""
}

// useLemmaUniversal assumes  forall vars. (guard && requires) ==> ensures  for a lemma instance whose
// arguments mention the quantified variables. Sound because a lemma is proved for all parameter values.
func (x *Exec) useLemmaUniversal(st *State, env *Env, u *Expr, props []string) {
	inner := u.Args[0]
	n := env.child()
	n.bound = map[string]bool{}
	for k := range env.bound {
		n.bound[k] = true
	}
	var bnames []string
	for _, v := range u.Vars {
		nm := x.freshName("q_" + v)
		n.bound[v] = true
		n.vars[v] = specInt(nm)
		bnames = append(bnames, nm)
	}
	guard := "true"
	if inner.Op == "guarded" {
		guard = x.evalSpec(inner.Args[0], n).T
		inner = inner.Args[1]
	}
	if inner.Op != "call" {
		bail("use expects lemma(args)")
	}
	lm := x.P.specs.Lemmas[inner.Name]
	if lm == nil {
		bail("use of unknown lemma %s", inner.Name)
	}
	if x.curLemma == lm {
		bail("lemma %s: universal self-use is not allowed", lm.Name)
	}
	if len(inner.Args) != len(lm.Params) {
		bail("lemma %s: wrong number of arguments", inner.Name)
	}
	le := &Env{st: st, vars: map[string]Val{}, pkg: lm.Pkg, old: env.old, useOld: env.useOld, bound: n.bound}
	for i, p := range lm.Params {
		le.vars[p.Name] = x.evalSpec(inner.Args[i], n)
	}
	var pre, post []string
	pre = append(pre, guard)
	for _, rq := range lm.Requires {
		pre = append(pre, x.evalSpec(rq.E, le).T)
	}
	for _, en := range lm.Ensures {
		post = append(post, x.evalSpec(en.E, le).T)
	}
	st.assume(normalizeForall("forall", bnames, implies(and(pre...), and(post...))))
	x.usedLemmas = append(x.usedLemmas, inner.Name)
}

func lemmaCallOf(u *Expr) *Expr {
	if u.Op == "noop" {
		u = u.Args[0]
	}
	if u.Op == "universal" {
		u = u.Args[0]
	}
	if u.Op == "guarded" {
		u = u.Args[1]
	}
	return u
}
