package main

// Contract language: lexer, parser, contract store.

import (
	"fmt"
	"os"
	"strings"
)

type tokKind int

const (
	tEOF tokKind = iota
	tIdent
	tInt
	tFloat
	tStr
	tOp
)

type stok struct {
	k   tokKind
	s   string
	pos int
}

func lexSpec(src string) ([]stok, error) {
	var toks []stok
	i := 0
	for i < len(src) {
		c := src[i]
		switch {
		case c == ' ' || c == '\t' || c == '\n':
			i++
		case c >= '0' && c <= '9':
			j := i
			isF := false
			if c == '0' && j+1 < len(src) && (src[j+1] == 'x' || src[j+1] == 'X') {
				j += 2
				for j < len(src) && strings.ContainsRune("0123456789abcdefABCDEF_", rune(src[j])) {
					j++
				}
			} else {
				for j < len(src) && (src[j] >= '0' && src[j] <= '9' || src[j] == '_') {
					j++
				}
				if j+1 < len(src) && src[j] == '.' && src[j+1] >= '0' && src[j+1] <= '9' {
					isF = true
					j++
					for j < len(src) && src[j] >= '0' && src[j] <= '9' {
						j++
					}
				}
			}
			k := tInt
			if isF {
				k = tFloat
			}
			toks = append(toks, stok{k, strings.ReplaceAll(src[i:j], "_", ""), i})
			i = j
		case c == '_' || c >= 'a' && c <= 'z' || c >= 'A' && c <= 'Z':
			j := i
			for j < len(src) && (src[j] == '_' || src[j] == '$' || src[j] >= 'a' && src[j] <= 'z' || src[j] >= 'A' && src[j] <= 'Z' || src[j] >= '0' && src[j] <= '9') {
				j++
			}
			toks = append(toks, stok{tIdent, src[i:j], i})
			i = j
		case c == '"':
			j := i + 1
			for j < len(src) && src[j] != '"' {
				j++
			}
			if j >= len(src) {
				return nil, fmt.Errorf("unterminated string")
			}
			toks = append(toks, stok{tStr, src[i+1 : j], i})
			i = j + 1
		default:
			ops := []string{"<==>", "==>", "===", "!==", "::", "==", "!=", "<=", ">=", "&&", "||", "..", "<", ">", "+", "-", "*", "/", "%", "!", "(", ")", "[", "]", ".", ",", ":", "?", "{", "}", "@", "#"}
			found := false
			for _, op := range ops {
				if strings.HasPrefix(src[i:], op) {
					toks = append(toks, stok{tOp, op, i})
					i += len(op)
					found = true
					break
				}
			}
			if !found {
				return nil, fmt.Errorf("unexpected character %q at %d in %q", c, i, src)
			}
		}
	}
	toks = append(toks, stok{tEOF, "", len(src)})
	return toks, nil
}

// Expr is a contract expression.
type Expr struct {
	Op   string // "ident","int","float","str","call","field","index","slice","unary","binary","forall","exists","old","ite"
	Name string // identifier / operator / field / callee
	Args []*Expr
	Vars []string // bound variables
	Src  string
}

func (e *Expr) String() string {
	if e == nil {
		return "<nil>"
	}
	switch e.Op {
	case "ident", "int", "float":
		return e.Name
	case "str":
		return fmt.Sprintf("%q", e.Name)
	case "call":
		var as []string
		for _, a := range e.Args {
			as = append(as, a.String())
		}
		return e.Name + "(" + strings.Join(as, ", ") + ")"
	case "field":
		return e.Args[0].String() + "." + e.Name
	case "index":
		return e.Args[0].String() + "[" + e.Args[1].String() + "]"
	case "slice":
		lo, hi := "", ""
		if e.Args[1] != nil {
			lo = e.Args[1].String()
		}
		if e.Args[2] != nil {
			hi = e.Args[2].String()
		}
		return e.Args[0].String() + "[" + lo + ":" + hi + "]"
	case "unary":
		return e.Name + e.Args[0].String()
	case "binary":
		return "(" + e.Args[0].String() + " " + e.Name + " " + e.Args[1].String() + ")"
	case "forall", "exists":
		return "(" + e.Op + " " + strings.Join(e.Vars, ", ") + " :: " + e.Args[0].String() + ")"
	case "old":
		return "old(" + e.Args[0].String() + ")"
	}
	return "?"
}

type parser struct {
	toks []stok
	p    int
	src  string
}

func parseExpr(src string) (*Expr, error) {
	toks, err := lexSpec(src)
	if err != nil {
		return nil, err
	}
	ps := &parser{toks: toks, src: src}
	e, err := ps.parseTop()
	if err != nil {
		return nil, fmt.Errorf("%v in %q", err, src)
	}
	if ps.peek().k != tEOF {
		return nil, fmt.Errorf("trailing input at %q in %q", ps.peek().s, src)
	}
	return e, nil
}

func (ps *parser) peek() stok { return ps.toks[ps.p] }
func (ps *parser) next() stok { t := ps.toks[ps.p]; ps.p++; return t }
func (ps *parser) isOp(s string) bool {
	t := ps.peek()
	return t.k == tOp && t.s == s
}
func (ps *parser) isKw(s string) bool {
	t := ps.peek()
	return t.k == tIdent && t.s == s
}
func (ps *parser) expectOp(s string) error {
	if !ps.isOp(s) {
		return fmt.Errorf("expected %q, got %q", s, ps.peek().s)
	}
	ps.p++
	return nil
}

func (ps *parser) parseTop() (*Expr, error) {
	if ps.isKw("forall") || ps.isKw("exists") {
		op := ps.next().s
		var vars []string
		for {
			t := ps.next()
			if t.k != tIdent {
				return nil, fmt.Errorf("expected bound variable")
			}
			vars = append(vars, t.s)
			if ps.isOp(",") {
				ps.p++
				continue
			}
			break
		}
		if err := ps.expectOp("::"); err != nil {
			return nil, err
		}
		body, err := ps.parseTop()
		if err != nil {
			return nil, err
		}
		return &Expr{Op: op, Vars: vars, Args: []*Expr{body}}, nil
	}
	return ps.parseIff()
}

func (ps *parser) parseIff() (*Expr, error) {
	l, err := ps.parseImp()
	if err != nil {
		return nil, err
	}
	for ps.isOp("<==>") {
		ps.p++
		r, err := ps.parseImp()
		if err != nil {
			return nil, err
		}
		l = &Expr{Op: "binary", Name: "<==>", Args: []*Expr{l, r}}
	}
	return l, nil
}

func (ps *parser) parseImp() (*Expr, error) {
	l, err := ps.parseOr()
	if err != nil {
		return nil, err
	}
	if ps.isOp("==>") {
		ps.p++
		var r *Expr
		if ps.isKw("forall") || ps.isKw("exists") {
			r, err = ps.parseTop()
		} else {
			r, err = ps.parseImp()
		}
		if err != nil {
			return nil, err
		}
		return &Expr{Op: "binary", Name: "==>", Args: []*Expr{l, r}}, nil
	}
	return l, nil
}

func (ps *parser) parseOr() (*Expr, error) {
	l, err := ps.parseAnd()
	if err != nil {
		return nil, err
	}
	for ps.isOp("||") {
		ps.p++
		r, err := ps.parseAnd()
		if err != nil {
			return nil, err
		}
		l = &Expr{Op: "binary", Name: "||", Args: []*Expr{l, r}}
	}
	return l, nil
}

func (ps *parser) parseAnd() (*Expr, error) {
	l, err := ps.parseCmp()
	if err != nil {
		return nil, err
	}
	for ps.isOp("&&") {
		ps.p++
		var r *Expr
		if ps.isKw("forall") || ps.isKw("exists") {
			r, err = ps.parseTop()
		} else {
			r, err = ps.parseCmp()
		}
		if err != nil {
			return nil, err
		}
		l = &Expr{Op: "binary", Name: "&&", Args: []*Expr{l, r}}
	}
	return l, nil
}

func (ps *parser) parseCmp() (*Expr, error) {
	l, err := ps.parseAdd()
	if err != nil {
		return nil, err
	}
	// chained comparisons a <= b < c become conjunctions
	var res *Expr
	for {
		t := ps.peek()
		if t.k == tOp && (t.s == "==" || t.s == "!=" || t.s == "<" || t.s == "<=" || t.s == ">" || t.s == ">=" || t.s == "===" || t.s == "!==") {
			ps.p++
			r, err := ps.parseAdd()
			if err != nil {
				return nil, err
			}
			c := &Expr{Op: "binary", Name: t.s, Args: []*Expr{l, r}}
			if res == nil {
				res = c
			} else {
				res = &Expr{Op: "binary", Name: "&&", Args: []*Expr{res, c}}
			}
			l = r
			continue
		}
		break
	}
	if res != nil {
		return res, nil
	}
	return l, nil
}

func (ps *parser) parseAdd() (*Expr, error) {
	l, err := ps.parseMul()
	if err != nil {
		return nil, err
	}
	for ps.isOp("+") || ps.isOp("-") {
		op := ps.next().s
		r, err := ps.parseMul()
		if err != nil {
			return nil, err
		}
		l = &Expr{Op: "binary", Name: op, Args: []*Expr{l, r}}
	}
	return l, nil
}

func (ps *parser) parseMul() (*Expr, error) {
	l, err := ps.parseUnary()
	if err != nil {
		return nil, err
	}
	for ps.isOp("*") || ps.isOp("/") || ps.isOp("%") || ps.isKw("fdiv") || ps.isKw("fmod") {
		op := ps.next().s
		r, err := ps.parseUnary()
		if err != nil {
			return nil, err
		}
		l = &Expr{Op: "binary", Name: op, Args: []*Expr{l, r}}
	}
	return l, nil
}

func (ps *parser) parseUnary() (*Expr, error) {
	if ps.isOp("!") || ps.isOp("-") || ps.isOp("*") {
		op := ps.next().s
		a, err := ps.parseUnary()
		if err != nil {
			return nil, err
		}
		return &Expr{Op: "unary", Name: op, Args: []*Expr{a}}, nil
	}
	return ps.parsePostfix()
}

func (ps *parser) parsePostfix() (*Expr, error) {
	e, err := ps.parsePrimary()
	if err != nil {
		return nil, err
	}
	for {
		switch {
		case ps.isOp("."):
			ps.p++
			t := ps.next()
			if t.k != tIdent {
				return nil, fmt.Errorf("expected field name")
			}
			e = &Expr{Op: "field", Name: t.s, Args: []*Expr{e}}
		case ps.isOp("["):
			ps.p++
			var lo, hi *Expr
			if !ps.isOp(":") {
				lo, err = ps.parseTop()
				if err != nil {
					return nil, err
				}
			}
			if ps.isOp(":") {
				ps.p++
				if !ps.isOp("]") {
					hi, err = ps.parseTop()
					if err != nil {
						return nil, err
					}
				}
				if err := ps.expectOp("]"); err != nil {
					return nil, err
				}
				e = &Expr{Op: "slice", Args: []*Expr{e, lo, hi}}
			} else {
				if err := ps.expectOp("]"); err != nil {
					return nil, err
				}
				e = &Expr{Op: "index", Args: []*Expr{e, lo}}
			}
		default:
			return e, nil
		}
	}
}

func (ps *parser) parsePrimary() (*Expr, error) {
	t := ps.next()
	switch t.k {
	case tInt:
		return &Expr{Op: "int", Name: t.s}, nil
	case tFloat:
		return &Expr{Op: "float", Name: t.s}, nil
	case tStr:
		return &Expr{Op: "str", Name: t.s}, nil
	case tIdent:
		if t.s == "forall" || t.s == "exists" {
			ps.p--
			return ps.parseTop()
		}
		if ps.isOp("(") {
			ps.p++
			var args []*Expr
			for !ps.isOp(")") {
				a, err := ps.parseTop()
				if err != nil {
					return nil, err
				}
				args = append(args, a)
				if ps.isOp(",") {
					ps.p++
				} else if !ps.isOp(")") {
					return nil, fmt.Errorf("expected , or ) in call to %s, got %q", t.s, ps.peek().s)
				}
			}
			ps.p++
			if t.s == "old" {
				if len(args) != 1 {
					return nil, fmt.Errorf("old takes one argument")
				}
				return &Expr{Op: "old", Args: args}, nil
			}
			return &Expr{Op: "call", Name: t.s, Args: args}, nil
		}
		return &Expr{Op: "ident", Name: t.s}, nil
	case tOp:
		if t.s == "(" {
			e, err := ps.parseTop()
			if err != nil {
				return nil, err
			}
			if err := ps.expectOp(")"); err != nil {
				return nil, err
			}
			return e, nil
		}
	}
	return nil, fmt.Errorf("unexpected token %q", t.s)
}

// ---------------------------------------------------------------- contracts

type Clause struct {
	Label string
	Props []string
	E     *Expr
	Text  string
	Line  string
}

type Contract struct {
	Name      string // function key
	Pkg       string // package key ("" = root, "cmd")
	Props     []string
	Requires  []*Clause
	Ensures   []*Clause
	Checks    []*Clause
	BeforeAssumes []BeforeAssume
	BeforeAsserts []BeforeAssert
	BeforeUses    []BeforeUse
	Modifies  []*Expr
	ModAll    bool
	Inline    bool
	Trusted   bool
	Pure      bool // trusted: no effects, unconstrained result
	Allocates *Expr
	File      string
	Behaviors map[string]*Contract
	NoSafety  bool
	Uses      []*Expr // lemma uses at entry
	AnchoredUses []AnchoredUse // lemma uses applied when a local variable is first bound
	Plain     []string // results declared never to be interior pointers
}

type AnchoredUse struct {
	Anchor string
	E      *Expr
}

type LoopSpec struct {
	Func       string
	Ordinal    int
	Invariants []*Clause
	// StepChecks are proved at every back edge (end of each iteration incl. continue) and never assumed
	StepChecks []*Clause
	Uses       []*Expr
}

type SpecParam struct {
	Name string
	Type string
}

type SpecFunc struct {
	Name    string
	Params  []SpecParam
	RetType string
	Body    *Expr
	Rec     bool
	Opaque  bool
	Pkg     string
}

type BeforeUse struct {
	Callee string
	E      *Expr
}

type BeforeAssert struct {
	Callee string
	C      *Clause
}

type BeforeAssume struct {
	Callee string
	E      *Expr
	Src    string
}

type Lemma struct {
	Name     string
	Params   []SpecParam
	Requires []*Clause
	Ensures  []*Clause
	Props    []string
	Pkg      string
	Uses     []*Expr
	Decreases *Expr // measure for inductive self-use
}

type Specs struct {
	Funcs    map[string]*Contract // key: pkgkey + ":" + name
	Loops    map[string]*LoopSpec // key: pkgkey:func#n
	SpecFns  map[string]*SpecFunc
	Lemmas   map[string]*Lemma
	Scanned  []string // assumption scan hits
	FilesRaw []string
}

func newSpecs() *Specs {
	return &Specs{Funcs: map[string]*Contract{}, Loops: map[string]*LoopSpec{}, SpecFns: map[string]*SpecFunc{}, Lemmas: map[string]*Lemma{}}
}

var clauseKw = map[string]bool{"func": true, "loop": true, "spec": true, "lemma": true, "props": true, "requires": true,
	"ensures": true, "modifies": true, "invariant": true, "inline": true, "trusted": true, "pure": true, "allocates": true,
	"nosafety": true, "use": true, "end": true, "plain": true, "assume": true, "check": true, "decreases": true, "assert": true, "stepcheck": true}

// loadSpecFile parses one contract file. pkg is the package key the file belongs to.
func (sp *Specs) loadSpecFile(path, pkg string, trustedFile bool) error {
	data, err := os.ReadFile(path)
	if err != nil {
		return err
	}
	var lines []string // logical clause lines
	for _, ln := range strings.Split(string(data), "\n") {
		t := strings.TrimSpace(ln)
		if !strings.HasPrefix(t, "//@") {
			continue
		}
		t = strings.TrimSpace(t[3:])
		if t == "" {
			continue
		}
		if strings.HasPrefix(t, "--") { // comment
			continue
		}
		first := t
		if i := strings.IndexAny(t, " \t[("); i >= 0 {
			first = t[:i]
		}
		if clauseKw[first] || len(lines) == 0 {
			lines = append(lines, t)
		} else {
			lines[len(lines)-1] += " " + t
		}
	}
	var cur *Contract
	var curLoop *LoopSpec
	var curLemma *Lemma
	for _, ln := range lines {
		kw := ln
		rest := ""
		if i := strings.IndexAny(ln, " \t["); i >= 0 {
			kw = ln[:i]
			rest = strings.TrimSpace(ln[i:])
		}
		fail := func(err error) error { return fmt.Errorf("%s: %q: %v", path, ln, err) }
		switch kw {
		case "func":
			cur = &Contract{Name: rest, Pkg: pkg, File: path, Trusted: trustedFile}
			curLoop, curLemma = nil, nil
			key := pkg + ":" + rest
			if trustedFile {
				key = "ext:" + rest
			}
			if _, dup := sp.Funcs[key]; dup {
				return fail(fmt.Errorf("duplicate contract"))
			}
			sp.Funcs[key] = cur
		case "loop":
			i := strings.LastIndex(rest, "#")
			if i < 0 {
				return fail(fmt.Errorf("loop needs func#ordinal"))
			}
			var n int
			fmt.Sscanf(rest[i+1:], "%d", &n)
			curLoop = &LoopSpec{Func: rest[:i], Ordinal: n}
			cur, curLemma = nil, nil
			sp.Loops[pkg+":"+rest] = curLoop
		case "spec":
			sf, err := parseSpecFunc(rest)
			if err != nil {
				return fail(err)
			}
			sf.Pkg = pkg
			sp.SpecFns[sf.Name] = sf
			cur, curLoop, curLemma = nil, nil, nil
		case "lemma":
			name, params, _, err := parseSig(rest)
			if err != nil {
				return fail(err)
			}
			curLemma = &Lemma{Name: name, Params: params, Pkg: pkg}
			sp.Lemmas[name] = curLemma
			cur, curLoop = nil, nil
		case "props":
			ps := strings.Fields(rest)
			if cur != nil {
				cur.Props = ps
			} else if curLemma != nil {
				curLemma.Props = ps
			}
		case "requires", "ensures", "invariant", "check", "stepcheck":
			cl, err := parseClause(rest)
			if err != nil {
				return fail(err)
			}
			cl.Line = ln
			switch {
			case kw == "invariant" && curLoop != nil:
				curLoop.Invariants = append(curLoop.Invariants, cl)
			case kw == "stepcheck" && curLoop != nil:
				curLoop.StepChecks = append(curLoop.StepChecks, cl)
			case kw == "requires" && cur != nil:
				cur.Requires = append(cur.Requires, cl)
			case kw == "ensures" && cur != nil:
				cur.Ensures = append(cur.Ensures, cl)
			case kw == "check" && cur != nil:
				// exit assertion over the function's own locals; proved at every return, never assumed by callers
				cur.Checks = append(cur.Checks, cl)
			case kw == "requires" && curLemma != nil:
				curLemma.Requires = append(curLemma.Requires, cl)
			case kw == "ensures" && curLemma != nil:
				curLemma.Ensures = append(curLemma.Ensures, cl)
			default:
				return fail(fmt.Errorf("clause outside of a block"))
			}
		case "modifies":
			if cur == nil {
				return fail(fmt.Errorf("modifies outside func"))
			}
			if strings.TrimSpace(rest) == "*" {
				cur.ModAll = true
				break
			}
			for _, part := range splitTop(rest) {
				e, err := parseExpr(part)
				if err != nil {
					return fail(err)
				}
				e.Src = part
				cur.Modifies = append(cur.Modifies, e)
			}
		case "decreases":
			if curLemma == nil {
				return fail(fmt.Errorf("decreases outside lemma"))
			}
			de, err := parseExpr(strings.TrimSpace(rest))
			if err != nil {
				return fail(err)
			}
			curLemma.Decreases = de
		case "allocates":
			e, err := parseExpr(strings.TrimPrefix(strings.TrimSpace(rest), "<="))
			if err != nil {
				return fail(err)
			}
			cur.Allocates = e
		case "assume":
			// assume <expr> at <local>: an explicit, reported assumption made when the local is first bound
			if bi := strings.LastIndex(rest, " before "); bi >= 0 && cur != nil && !strings.Contains(rest[bi+8:], " ") {
				// assume <expr> before <callee>: an explicit, reported assumption made right before each call of the
				// callee from the function under verification; the expression is over the callee's parameter names
				be, err := parseExpr(strings.TrimSpace(rest[:bi]))
				if err != nil {
					return fail(err)
				}
				cur.BeforeAssumes = append(cur.BeforeAssumes, BeforeAssume{Callee: strings.TrimSpace(rest[bi+8:]), E: be, Src: strings.TrimSpace(rest[:bi])})
				sp.Scanned = append(sp.Scanned, fmt.Sprintf("explicit assumption in %s before %s: %s", cur.Name, strings.TrimSpace(rest[bi+8:]), strings.TrimSpace(rest[:bi])))
				break
			}
			ai := strings.LastIndex(rest, " at ")
			if ai < 0 || cur == nil {
				return fail(fmt.Errorf("assume needs 'at <local>' or 'before <callee>' inside a func block"))
			}
			e, err := parseExpr(strings.TrimSpace(rest[:ai]))
			if err != nil {
				return fail(err)
			}
			cur.AnchoredUses = append(cur.AnchoredUses, AnchoredUse{Anchor: strings.TrimSpace(rest[ai+4:]), E: &Expr{Op: "assume", Args: []*Expr{e}, Src: strings.TrimSpace(rest[:ai])}})
			sp.Scanned = append(sp.Scanned, fmt.Sprintf("explicit assumption in %s: %s", cur.Name, strings.TrimSpace(rest[:ai])))
		case "assert":
			// assert[Cxx] label: <expr> before <callee>: proved right before each direct call of the callee; the expression
			// is over the callee's parameter names, the function's parameters and its locals
			bi := strings.LastIndex(rest, " before ")
			if bi < 0 || cur == nil {
				return fail(fmt.Errorf("assert needs 'before <callee>' inside a func block"))
			}
			cl, err := parseClause(strings.TrimSpace(rest[:bi]))
			if err != nil {
				return fail(err)
			}
			cl.Line = ln
			cur.BeforeAsserts = append(cur.BeforeAsserts, BeforeAssert{Callee: strings.TrimSpace(rest[bi+8:]), C: cl})
		case "plain":
			cur.Plain = append(cur.Plain, strings.Fields(rest)...)
		case "inline":
			cur.Inline = true
		case "trusted":
			cur.Trusted = true
			sp.Scanned = append(sp.Scanned, fmt.Sprintf("trusted contract: %s (%s)", cur.Name, path))
		case "pure":
			cur.Pure = true
			cur.Trusted = true
		case "nosafety":
			cur.NoSafety = true
		case "use":
			if bi := strings.LastIndex(rest, " before "); bi >= 0 && cur != nil && !strings.ContainsAny(rest[bi+8:], " ") {
				// use lemma(args) [forall v] before <callee>: applied right before each direct call of the callee
				callee := strings.TrimSpace(rest[bi+8:])
				r2 := strings.TrimSpace(rest[:bi])
				var univ []string
				if fi := strings.LastIndex(r2, " forall "); fi >= 0 && !strings.Contains(r2[fi:], "::") {
					for _, v := range strings.Split(r2[fi+8:], ",") {
						univ = append(univ, strings.TrimSpace(v))
					}
					r2 = strings.TrimSpace(r2[:fi])
				}
				var bguard *Expr
				if gi := strings.Index(r2, " when "); gi >= 0 {
					g, err := parseExpr(strings.TrimSpace(r2[gi+6:]))
					if err != nil {
						return fail(err)
					}
					bguard = g
					r2 = strings.TrimSpace(r2[:gi])
				}
				ue, err := parseExpr(r2)
				if err != nil {
					return fail(err)
				}
				if bguard != nil {
					ue = &Expr{Op: "guarded", Args: []*Expr{bguard, ue}}
				}
				if len(univ) > 0 {
					ue = &Expr{Op: "universal", Vars: univ, Args: []*Expr{ue}}
				}
				cur.BeforeUses = append(cur.BeforeUses, BeforeUse{Callee: callee, E: ue})
				cur.Uses = append(cur.Uses, &Expr{Op: "noop", Args: []*Expr{ue}}) // keeps the lemma in the property closure
				break
			}
			anchor := ""
			if ai := strings.LastIndex(rest, " at "); ai >= 0 && !strings.ContainsAny(rest[ai+4:], " ()") {
				anchor = strings.TrimSpace(rest[ai+4:])
				rest = strings.TrimSpace(rest[:ai])
			}
			var univ []string
			if fi := strings.LastIndex(rest, " forall "); fi >= 0 && !strings.Contains(rest[fi:], "::") {
				// use lemma(args) forall v, w: the lemma holds for all parameter values, so it may be
				// assumed universally quantified over the named integer variables
				for _, v := range strings.Split(rest[fi+8:], ",") {
					univ = append(univ, strings.TrimSpace(v))
				}
				rest = strings.TrimSpace(rest[:fi])
			}
			var guard *Expr
			if gi := strings.Index(rest, " when "); gi >= 0 {
				g, err := parseExpr(strings.TrimSpace(rest[gi+6:]))
				if err != nil {
					return fail(err)
				}
				guard = g
				rest = strings.TrimSpace(rest[:gi])
			}
			e, err := parseExpr(rest)
			if err != nil {
				return fail(err)
			}
			if guard != nil {
				e = &Expr{Op: "guarded", Args: []*Expr{guard, e}}
			}
			if len(univ) > 0 {
				e = &Expr{Op: "universal", Vars: univ, Args: []*Expr{e}}
			}
			if anchor != "" && cur != nil {
				cur.AnchoredUses = append(cur.AnchoredUses, AnchoredUse{Anchor: anchor, E: e})
				break
			}
			if cur != nil {
				cur.Uses = append(cur.Uses, e)
			} else if curLemma != nil {
				curLemma.Uses = append(curLemma.Uses, e)
			} else if curLoop != nil {
				curLoop.Uses = append(curLoop.Uses, e)
			}
		case "end":
			cur, curLoop, curLemma = nil, nil, nil
		default:
			return fail(fmt.Errorf("unknown keyword %q", kw))
		}
	}
	return nil
}

func splitTop(s string) []string {
	var parts []string
	d := 0
	start := 0
	for i, c := range s {
		switch c {
		case '(', '[':
			d++
		case ')', ']':
			d--
		case ',':
			if d == 0 {
				parts = append(parts, strings.TrimSpace(s[start:i]))
				start = i + 1
			}
		}
	}
	parts = append(parts, strings.TrimSpace(s[start:]))
	return parts
}

// parseClause parses "[C01,C02] label: expr".
func parseClause(s string) (*Clause, error) {
	cl := &Clause{}
	s = strings.TrimSpace(s)
	if strings.HasPrefix(s, "[") {
		i := strings.Index(s, "]")
		if i < 0 {
			return nil, fmt.Errorf("unterminated [props]")
		}
		for _, p := range strings.Split(s[1:i], ",") {
			cl.Props = append(cl.Props, strings.TrimSpace(p))
		}
		s = strings.TrimSpace(s[i+1:])
	}
	// label: identifier followed by ':' (but not '::')
	for i := 0; i < len(s); i++ {
		c := s[i]
		if c == ':' && i > 0 && (i+1 >= len(s) || s[i+1] != ':') {
			cl.Label = s[:i]
			s = strings.TrimSpace(s[i+1:])
			break
		}
		if !(c == '_' || c >= 'a' && c <= 'z' || c >= 'A' && c <= 'Z' || c >= '0' && c <= '9') {
			break
		}
	}
	e, err := parseExpr(s)
	if err != nil {
		return nil, err
	}
	cl.E = e
	cl.Text = s
	return cl, nil
}

// parseSig parses "name(p T, q U) R".
func parseSig(s string) (string, []SpecParam, string, error) {
	i := strings.Index(s, "(")
	j := strings.Index(s, ")")
	if i < 0 || j < i {
		return "", nil, "", fmt.Errorf("bad signature %q", s)
	}
	name := strings.TrimSpace(s[:i])
	var params []SpecParam
	for _, p := range strings.Split(s[i+1:j], ",") {
		p = strings.TrimSpace(p)
		if p == "" {
			continue
		}
		f := strings.Fields(p)
		if len(f) != 2 {
			return "", nil, "", fmt.Errorf("bad parameter %q", p)
		}
		params = append(params, SpecParam{f[0], f[1]})
	}
	return name, params, strings.TrimSpace(s[j+1:]), nil
}

func parseSpecFunc(s string) (*SpecFunc, error) {
	eq := strings.Index(s, "=")
	// find the '=' that is not part of '==' etc: the first " = " after ')'
	j := strings.Index(s, ")")
	if j < 0 {
		return nil, fmt.Errorf("bad spec function %q", s)
	}
	eq = strings.Index(s[j:], " = ")
	if eq < 0 {
		return nil, fmt.Errorf("spec function needs ' = body': %q", s)
	}
	eq += j
	name, params, ret, err := parseSig(s[:eq])
	if err != nil {
		return nil, err
	}
	sf := &SpecFunc{Name: name, Params: params, RetType: ret}
	if strings.HasPrefix(ret, "rec ") {
		sf.Rec = true
		sf.RetType = strings.TrimSpace(ret[4:])
	}
	if strings.HasPrefix(ret, "opaque ") {
		sf.Opaque = true
		sf.RetType = strings.TrimSpace(ret[7:])
	}
	body, err := parseExpr(strings.TrimSpace(s[eq+3:]))
	if err != nil {
		return nil, err
	}
	sf.Body = body
	return sf, nil
}
