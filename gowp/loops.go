package main

// Loop cutting: invariants, havoc, automatic invariants, local-name resolution.

import (
	"fmt"
	"go/token"
	"go/types"
	"sort"

	"golang.org/x/tools/go/ssa"
)

func (x *Exec) loopKey(fr *Frame, l *Loop) string {
	k, ok := x.P.fnKey[fr.fn]
	if !ok {
		return "ext:" + fr.fn.String() + fmt.Sprintf("#%d", l.Ordinal)
	}
	return fmt.Sprintf("%s#%d", k, l.Ordinal)
}

// loopInvariants proves (phase "init"/"step") or assumes the invariants of loop l.
func (x *Exec) loopInvariants(st *State, fr *Frame, l *Loop, phase string, assume bool) {
	key := x.loopKey(fr, l)
	ls := x.P.specs.Loops[key]
	snap := fr.loopSnap[l.Head]
	fr.curLoop = l
	env := &Env{st: st, vars: map[string]Val{}, pkg: x.pkgOf(fr.fn), old: x.entry, fr: fr, localsFirst: true}
	if fr.parent != nil {
		env.old = snap // inlined callee: old() refers to loop entry (no own pre-state)
	}
	// parameters of the executing function
	for i, p := range fr.fn.Params {
		if v, ok := fr.vals[p]; ok {
			env.vars[p.Name()] = v
			if a := x.P.paramAlias(fr.fn, i); a != "" {
				env.vars[a] = v
			}
		}
	}
	pos := token.NoPos
	for _, in := range l.Head.Instrs {
		if in.Pos().IsValid() {
			pos = in.Pos()
			break
		}
	}
	name := fmt.Sprintf("%s#%d", funcName(fr.fn), l.Ordinal)
	emitOrAssume := func(label, text, goal string, props []string) {
		if assume {
			st.assume(goal)
			return
		}
		lbl := name + "." + label
		if fr.inl != "" && fr.parent != nil {
			lbl = fr.inl + "." + lbl
		}
		parts := splitGoal(goal)
		for pi, part := range parts {
			l2 := lbl
			if len(parts) > 1 {
				l2 = fmt.Sprintf("%s#%d", lbl, pi+1)
			}
			x.emit(st, "inv."+phase, l2, "loop invariant "+text, part, props, pos, fr)
		}
	}
	for i, g := range x.autoInvariants(st, fr, l) {
		emitOrAssume(fmt.Sprintf("auto%d", i), g.text, g.goal, nil)
	}
	if ls != nil {
		for i, inv := range ls.Invariants {
			g := x.evalSpec(inv.E, env)
			lbl := inv.Label
			if lbl == "" {
				lbl = fmt.Sprintf("inv%d", i)
			}
			emitOrAssume(lbl, inv.Text, g.T, inv.Props)
		}
	}
	if ls != nil && !assume && phase == "step" {
		// iteration-end assertions: proved on every path that reaches the back edge, never assumed at the head
		for i, sc := range ls.StepChecks {
			g := x.evalSpec(sc.E, env)
			lbl := sc.Label
			if lbl == "" {
				lbl = fmt.Sprintf("stepcheck%d", i)
			}
			emitOrAssume(lbl, sc.Text, g.T, sc.Props)
		}
	}
	if ls != nil && assume {
		for _, u := range ls.Uses {
			x.useLemma(st, env, u, nil)
		}
	}
}

func (x *Exec) pkgOf(f *ssa.Function) string {
	if k, ok := x.P.fnKey[f]; ok {
		for i := 0; i < len(k); i++ {
			if k[i] == ':' {
				return k[:i]
			}
		}
	}
	return ""
}

type autoInv struct{ text, goal string }

// autoInvariants recognises counting loops whose bounds hold by construction:
//   range loops:   k = phi [-1, k+1];  if k+1 < n     ==>  -1 <= k && (k < n || k == -1)
//   for i := c; i < n; i += d (d>0):                   ==>  c <= i
//   for i := c; i >= n; i -= d (d>0):                  ==>  i <= c
func (x *Exec) autoInvariants(st *State, fr *Frame, l *Loop) []autoInv {
	var out []autoInv
	head := l.Head
	var ifi *ssa.If
	if len(head.Instrs) > 0 {
		ifi, _ = head.Instrs[len(head.Instrs)-1].(*ssa.If)
	}
	for _, in := range head.Instrs {
		ph, ok := in.(*ssa.Phi)
		if !ok {
			continue
		}
		if _, ok := intRange(ph.Type()); !ok {
			continue
		}
		if len(ph.Edges) != 2 {
			continue
		}
		// identify init edge and step edge
		var initV, stepV ssa.Value
		for i, p := range head.Preds {
			if l.Blocks[p] {
				stepV = ph.Edges[i]
			} else {
				initV = ph.Edges[i]
			}
		}
		if initV == nil || stepV == nil {
			continue
		}
		bo, ok := stepV.(*ssa.BinOp)
		if !ok || bo.X != ssa.Value(ph) {
			continue
		}
		c, ok := bo.Y.(*ssa.Const)
		if !ok || c.Value == nil {
			continue
		}
		d, ok2 := c.Int64(), true
		if !ok2 || d <= 0 {
			continue
		}
		cur, ok := fr.vals[ph]
		if !ok {
			continue
		}
		initVal, ok := fr.vals[initV]
		if !ok {
			if ic, isC := initV.(*ssa.Const); isC {
				initVal = x.constVal(ic)
			} else {
				continue
			}
		}
		// the initial value must be loop-invariant: it is defined outside the loop by construction
		if ph.Comment == "rangeindex" && bo.Op == token.ADD && d == 1 {
			// find bound: if (k+1) < n
			if ifi != nil {
				if cmp, ok := ifi.Cond.(*ssa.BinOp); ok && cmp.Op == token.LSS && cmp.X == ssa.Value(bo) && bo.Block() == head {
					if nv, ok := fr.vals[cmp.Y]; ok {
						out = append(out, autoInv{"range index within bounds", and(sx("<=", "(- 1)", cur.T), or(sx("<", cur.T, nv.T), sx("=", cur.T, "(- 1)")))})
						continue
					}
				}
			}
			continue
		}
		if ifi == nil {
			continue
		}
		cmp, ok := ifi.Cond.(*ssa.BinOp)
		if !ok || cmp.X != ssa.Value(ph) || !l.Blocks[head.Succs[0]] || l.Blocks[head.Succs[1]] {
			continue
		}
		switch {
		case bo.Op == token.ADD && (cmp.Op == token.LSS || cmp.Op == token.LEQ || cmp.Op == token.NEQ && d == 1):
			if cmp.Op == token.NEQ {
				continue
			}
			out = append(out, autoInv{"counter does not fall below its start", sx("<=", initVal.T, cur.T)})
		case bo.Op == token.SUB && (cmp.Op == token.GTR || cmp.Op == token.GEQ):
			out = append(out, autoInv{"counter does not rise above its start", sx("<=", cur.T, initVal.T)})
		}
	}
	return out
}

// heapsWrittenIn over-approximates the heaps (and allocator) modified by the loop body.
func (x *Exec) heapsWrittenIn(fr *Frame, blocks map[*ssa.BasicBlock]bool, seen map[*ssa.Function]bool, out map[string]bool) (all bool) {
	ss := x.P.ss
	for b := range blocks {
		for _, in := range b.Instrs {
			switch in := in.(type) {
			case *ssa.Store:
				pt, ok := in.Addr.Type().Underlying().(*types.Pointer)
				if !ok {
					continue
				}
				x.markPtrHeaps(in.Addr, pt.Elem(), out)
			case *ssa.MakeClosure:
				// the closure may run inside the region (errgroup worker, deferred call, direct call)
				if cf, ok := in.Fn.(*ssa.Function); ok && !seen[cf] {
					seen[cf] = true
					bs := map[*ssa.BasicBlock]bool{}
					for _, cb := range cf.Blocks {
						bs[cb] = true
					}
					if x.heapsWrittenIn(fr, bs, seen, out) {
						return true
					}
				}
				out["$top"] = true
			case *ssa.Alloc, *ssa.MakeSlice:
				out["$top"] = true
				if a, ok := in.(*ssa.Alloc); ok {
					el := a.Type().Underlying().(*types.Pointer).Elem()
					if arr, ok := el.Underlying().(*types.Array); ok {
						out[ss.heapKey(arr.Elem(), true)] = true
					} else if a.Heap && ss.kindOf(el) != KOpaque {
						out[ss.heapKey(el, false)] = true
					}
				} else if m, ok := in.(*ssa.MakeSlice); ok {
					out[ss.heapKey(m.Type().Underlying().(*types.Slice).Elem(), true)] = true
				}
			case ssa.CallInstruction:
				cc := in.Common()
				out["$top"] = true
				if bi, ok := cc.Value.(*ssa.Builtin); ok {
					if bi.Name() == "append" || bi.Name() == "copy" {
						if el := elemOfSliceType(cc.Args[0].Type()); el != nil {
							out[ss.heapKey(el, true)] = true
						}
					}
					continue
				}
				if cc.IsInvoke() {
					continue // trusted pure invocations only
				}
				callee := cc.StaticCallee()
				if callee == nil {
					if named, ok := cc.Value.Type().(*types.Named); ok {
						if con := x.P.specs.Funcs["ext:dynamic:"+named.String()]; con != nil && !con.ModAll {
							for _, m := range con.Modifies {
								x.markModHeapsSig(cc.Signature(), m, out)
							}
							continue
						}
					}
					// closure call: find MakeClosure / function values conservatively
					return true
				}
				if con := x.P.contractOf(callee); con != nil && !con.Inline {
					if con.ModAll {
						return true
					}
					for _, m := range con.Modifies {
						x.markModHeaps(callee, m, out)
					}
					continue
				}
				switch callee.String() {
				case "math.Float64bits", "math.Float32bits", "math.Float64frombits", "math.Float32frombits", "math.NaN", "math.IsNaN", "fmt.Errorf", "errors.New":
					continue
				case "sort.Stable", "sort.Sort":
					return true
				case "(*golang.org/x/sync/errgroup.Group).Go":
					out["G_egerr"] = true
					continue
				case "(*golang.org/x/sync/errgroup.Group).Wait":
					continue
				}
				if callee.Blocks == nil {
					continue
				}
				if seen[callee] {
					continue
				}
				seen[callee] = true
				bs := map[*ssa.BasicBlock]bool{}
				for _, cb := range callee.Blocks {
					bs[cb] = true
				}
				if x.heapsWrittenIn(fr, bs, seen, out) {
					return true
				}
				for _, af := range callee.AnonFuncs {
					bs2 := map[*ssa.BasicBlock]bool{}
					for _, cb := range af.Blocks {
						bs2[cb] = true
					}
					if x.heapsWrittenIn(fr, bs2, seen, out) {
						return true
					}
				}
			}
		}
	}
	return false
}

// markPtrHeaps marks the heap a store through addr (static type *elem) may write.
func (x *Exec) markPtrHeaps(addr ssa.Value, elem types.Type, out map[string]bool) {
	ss := x.P.ss
	// walk back through FieldAddr/IndexAddr to the base object
	for {
		switch a := addr.(type) {
		case *ssa.FieldAddr:
			addr = a.X
			continue
		case *ssa.IndexAddr:
			t := a.X.Type().Underlying()
			if sl, ok := t.(*types.Slice); ok {
				out[ss.heapKey(sl.Elem(), true)] = true
				return
			}
			if pt, ok := t.(*types.Pointer); ok {
				if arr, ok := pt.Elem().Underlying().(*types.Array); ok {
					out[ss.heapKey(arr.Elem(), true)] = true
					return
				}
			}
			return
		case *ssa.Alloc:
			el := a.Type().Underlying().(*types.Pointer).Elem()
			if arr, ok := el.Underlying().(*types.Array); ok {
				out[ss.heapKey(arr.Elem(), true)] = true
			} else if a.Heap && ss.kindOf(el) != KOpaque {
				out[ss.heapKey(el, false)] = true
			} else if !a.Heap {
				out["$cells"] = true
			}
			return
		case *ssa.Global:
			out["G_"+sanitize(a.Pkg.Pkg.Path()+"."+a.Name())] = true
			return
		}
		break
	}
	pt, ok := addr.Type().Underlying().(*types.Pointer)
	if !ok {
		return
	}
	el := pt.Elem()
	if arr, ok := el.Underlying().(*types.Array); ok {
		out[ss.heapKey(arr.Elem(), true)] = true
		return
	}
	if ss.kindOf(el) != KOpaque {
		out[ss.heapKey(el, false)] = true
		// the pointer may be an interior/element pointer passed by reference: also mark row heaps of that type
		out[ss.heapKey(el, true)] = true
		out["$byref"] = true
	}
}

// markModHeapsSig: as markModHeaps for a call through a typed function value (parameters p0, p1, ...).
func (x *Exec) markModHeapsSig(sig *types.Signature, m *Expr, out map[string]bool) {
	x.markModHeapsT(func(name string) types.Type {
		var i int
		if _, err := fmt.Sscanf(name, "p%d", &i); err == nil && i < sig.Params().Len() {
			return sig.Params().At(i).Type()
		}
		return nil
	}, m, out)
}

func (x *Exec) markModHeaps(callee *ssa.Function, m *Expr, out map[string]bool) {
	x.markModHeapsT(func(name string) types.Type {
		for _, p := range callee.Params {
			if p.Name() == name {
				return p.Type()
			}
		}
		return nil
	}, m, out)
}

func (x *Exec) markModHeapsT(paramType func(string) types.Type, m *Expr, out map[string]bool) {
	ss := x.P.ss
	switch {
	case m.Op == "call" && m.Name == "fb":
		out["FB"] = true
		return
	case m.Op == "call" && m.Name == "disk":
		out["DISK"] = true
		out["DISKLEN"] = true
		return
	case m.Op == "call" && m.Name == "ghost":
		out["G_"+m.Args[0].Name] = true
		return
	}
	// find the root identifier of the target and use its static type
	root := m
	depth := 0
	var fields []string
	for root.Op != "ident" {
		switch root.Op {
		case "slice", "index", "field", "unary":
			if root.Op == "field" {
				fields = append([]string{root.Name}, fields...)
			}
			root = root.Args[0]
		default:
			out["$all"] = true
			return
		}
		depth++
		if depth > 10 {
			out["$all"] = true
			return
		}
	}
	t := paramType(root.Name)
	if t == nil {
		out["$all"] = true
		return
	}
	// any heap reachable by type from t through the named fields
	var mark func(t types.Type, d int)
	mark = func(t types.Type, d int) {
		if d > 4 {
			return
		}
		switch u := t.Underlying().(type) {
		case *types.Pointer:
			if arr, ok := u.Elem().Underlying().(*types.Array); ok {
				out[ss.heapKey(arr.Elem(), true)] = true
				return
			}
			if ss.kindOf(u.Elem()) != KOpaque {
				out[ss.heapKey(u.Elem(), false)] = true
				out[ss.heapKey(u.Elem(), true)] = true
				out["$byref"] = true
			}
		case *types.Slice:
			out[ss.heapKey(u.Elem(), true)] = true
		}
	}
	mark(t, 0)
	cur := t
	for _, f := range fields {
		if p, ok := cur.Underlying().(*types.Pointer); ok {
			cur = p.Elem()
		}
		stt, ok := cur.Underlying().(*types.Struct)
		if !ok {
			break
		}
		for i := 0; i < stt.NumFields(); i++ {
			if stt.Field(i).Name() == f {
				cur = stt.Field(i).Type()
				mark(cur, 0)
			}
		}
	}
}

func (x *Exec) havocLoop(st *State, fr *Frame, l *Loop, phis []*ssa.Phi) {
	ss := x.P.ss
	written := map[string]bool{}
	all := x.heapsWrittenIn(fr, l.Blocks, map[*ssa.Function]bool{}, written)
	if written["$all"] {
		all = true
	}
	entryTop := st.top
	// allocator
	if written["$top"] || all {
		nt := x.freshName("top")
		st.declare(nt, "Int")
		st.assume(and(sx(">=", nt, st.top), sx("<=", nt, "4611686018427387904")))
		st.top = nt
	}
	// heaps
	var keys []string
	if all {
		for k := range st.heaps {
			keys = append(keys, k)
		}
	} else {
		for k := range written {
			if k[0] == '$' {
				continue
			}
			if _, ok := st.heaps[k]; ok {
				keys = append(keys, k)
			}
		}
	}
	for _, k := range keys {
		old := st.heaps[k]
		nh := x.havocHeap(st, k)
		x.assumeFrame(st, k, old, nh, entryTop)
	}
	// by-reference writes through interior pointers of callers' cells / local cells written in the loop
	if written["$cells"] || written["$byref"] || all {
		for f := fr; f != nil; f = f.parent {
			for a, c := range f.cells {
				if x.cellWrittenIn(a, l, f == fr) || all {
					if v, ok := st.cells[c]; ok {
						switch v.K {
						case KInt, KBool, KFloat, KStruct, KSlice, KErr, KOpaque:
							st.cells[c] = x.freshVal(st, "cell", c.typ)
						case KPtr:
							if v.Ptr != nil && v.Ptr.Local == nil {
								st.cells[c] = x.freshVal(st, "cell", c.typ)
							} else {
								bail("loop modifies a local holding a structural pointer")
							}
						default:
							bail("loop modifies a local of unsupported kind")
						}
					}
				}
			}
		}
	}
	// phis
	for _, ph := range phis {
		cur := fr.vals[ph]
		switch cur.K {
		case KTuple, KFunc, KIface:
			bail("loop-carried value of unsupported kind (%v)", ph.Type())
		case KPtr:
			if cur.Ptr != nil && (cur.Ptr.Local != nil || len(cur.Ptr.Path) > 0 || cur.Ptr.Rows) {
				bail("loop-carried interior pointer")
			}
		}
		fr.vals[ph] = x.freshVal(st, ph.Comment+"_"+ph.Name(), ph.Type())
	}
	_ = ss
}

// assumeFrame: locations outside the function's modifies clause that existed at
// function entry are unchanged by any prefix of the execution (justified by the
// pointwise frame obligations at every store and call).
func (x *Exec) assumeFrame(st *State, key, old, nh, loopEntryTop string) {
	// Locations allocated before the loop and not writable by the function keep the value they had at loop entry.
	if !x.frameApplies() {
		return
	}
	sort := st.hsort[key]
	rows := len(key) > 3 && key[:3] == "HS_" || key == "FB" || key == "DISK"
	var excl []string
	for _, t := range x.modset {
		if t.heap != key {
			continue
		}
		if t.rows {
			excl = append(excl, and(sx("=", "r", t.root), sx("<=", t.lo, "k"), sx("<", "k", t.hi)))
		} else {
			excl = append(excl, sx("=", "r", t.root))
		}
	}
	_ = sort
	guard := and(sx("<=", "r", x.entry.top), not(or(excl...)))
	if rows {
		st.assume(fmt.Sprintf("(forall ((r Int) (k Int)) (! (=> %s (= (select (select %s r) k) (select (select %s r) k))) :pattern ((select (select %s r) k))))", guard, nh, old, nh))
	} else {
		st.assume(fmt.Sprintf("(forall ((r Int)) (! (=> %s (= (select %s r) (select %s r))) :pattern ((select %s r))))", guard, nh, old, nh))
	}
}

func (x *Exec) cellWrittenIn(a *ssa.Alloc, l *Loop, sameFrame bool) bool {
	if !sameFrame {
		return true // conservatively: a by-reference callee loop may write any caller cell passed down
	}
	var uses func(v ssa.Value, depth int) bool
	uses = func(v ssa.Value, depth int) bool {
		if depth > 6 {
			return true
		}
		for _, u := range *v.Referrers() {
			if !l.Blocks[u.Block()] {
				// address derived outside but used inside is found via the derived value's own referrers
				if d, ok := u.(ssa.Value); ok {
					switch u.(type) {
					case *ssa.FieldAddr, *ssa.IndexAddr:
						if uses(d, depth+1) {
							return true
						}
					}
				}
				continue
			}
			switch u := u.(type) {
			case *ssa.Store:
				if u.Addr == v {
					return true
				}
			case *ssa.FieldAddr, *ssa.IndexAddr:
				if uses(u.(ssa.Value), depth+1) {
					return true
				}
			case ssa.CallInstruction:
				return true
			case *ssa.MakeClosure:
				return true
			}
		}
		return false
	}
	return uses(a, 0)
}

// lookupPhi resolves a name to the loop-carried value of a loop that is currently cut:
// a phi whose comment is the name, or a range key (rangeindex+1 = number of elements done).
func (x *Exec) lookupPhi(fr *Frame, name string, st *State) (Val, bool) {
	name = x.P.localAlias(fr.fn, name)
	li := x.P.loopInfo(fr.fn)
	cur := fr.curLoop
	if cur == nil {
		return Val{}, false
	}
	// candidate loop heads: the loop being cut, then its enclosing loops (inner to outer)
	heads := []*ssa.BasicBlock{cur.Head}
	var encl []*Loop
	for _, l := range li.ByOrd {
		if l != cur && l.Blocks[cur.Head] {
			encl = append(encl, l)
		}
	}
	sort.Slice(encl, func(a, b int) bool { return len(encl[a].Blocks) < len(encl[b].Blocks) })
	for _, l := range encl {
		heads = append(heads, l.Head)
	}
	for _, h := range heads {
		for _, in := range h.Instrs {
			ph, ok := in.(*ssa.Phi)
			if !ok {
				continue
			}
			if ph.Comment == name {
				if v, ok := fr.vals[ph]; ok {
					return v, true
				}
			}
		}
	}
	// "iter": the number of completed iterations of the enclosing range loop
	if name == "iter" {
		for _, h := range heads {
			for _, in := range h.Instrs {
				if ph, ok := in.(*ssa.Phi); ok && ph.Comment == "rangeindex" {
					if v, ok := fr.vals[ph]; ok {
						return Val{K: KInt, T: plus(v.T, "1"), Typ: types.Typ[types.Int]}, true
					}
				}
			}
		}
	}
	// range key: DebugRef of name bound to (rangeindex + 1)
	for _, b := range fr.fn.Blocks {
		for _, in := range b.Instrs {
			dr, ok := in.(*ssa.DebugRef)
			if !ok || dr.IsAddr || dr.Object() == nil || dr.Object().Name() != name {
				continue
			}
			bo, ok := dr.X.(*ssa.BinOp)
			if !ok || bo.Op != token.ADD {
				continue
			}
			ph, ok := bo.X.(*ssa.Phi)
			if !ok || ph.Comment != "rangeindex" {
				continue
			}
			inScope := false
			for _, h := range heads {
				if ph.Block() == h {
					inScope = true
				}
			}
			if !inScope {
				continue
			}
			if v, ok := fr.vals[ph]; ok {
				return Val{K: KInt, T: plus(v.T, "1"), Typ: types.Typ[types.Int]}, true
			}
		}
	}
	return Val{}, false
}

// lookupLocal resolves a source-level local variable name to its current value.
func (x *Exec) lookupLocal(fr *Frame, name string, st *State) (Val, bool) {
	name = x.P.localAlias(fr.fn, name)
	// 0. an address-taken variable (captured by a closure, or &v): its cell is authoritative
	if al := allocNamed(fr, name); al != nil {
		if pv, ok := fr.vals[al]; ok && pv.K == KPtr && pv.Ptr != nil {
			if pv.Ptr.Local != nil {
				if v, ok := st.cells[pv.Ptr.Local]; ok {
					return v, true
				}
			} else if pv.Ptr.Heap != "" || x.P.ss.kindOf(pv.Ptr.Elem) == KOpaque {
				return x.load(st, pv.Ptr), true
			}
		}
	}
	// 1. phi with that comment, most recently bound
	var best ssa.Value
	for v := range fr.vals {
		if ph, ok := v.(*ssa.Phi); ok && ph.Comment == name {
			if best == nil || ph.Block().Index > best.(*ssa.Phi).Block().Index {
				best = ph
			}
		}
	}
	// 2. DebugRefs: latest-positioned binding whose value is available
	var bestRef *ssa.DebugRef
	for _, b := range fr.fn.Blocks {
		for _, in := range b.Instrs {
			dr, ok := in.(*ssa.DebugRef)
			if !ok {
				continue
			}
			obj := dr.Object()
			if obj == nil || obj.Name() != name {
				continue
			}
			if _, isVar := obj.(*types.Var); !isVar {
				continue
			}
			if _, ok := fr.vals[dr.X]; !ok {
				if _, isC := dr.X.(*ssa.Const); !isC {
					continue
				}
			}
			if bestRef == nil || dr.Pos() > bestRef.Pos() {
				bestRef = dr
			}
		}
	}
	if best != nil {
		// prefer the phi when it belongs to a loop currently cut (it is the loop-carried value)
		if fr.cut[best.(*ssa.Phi).Block()] || bestRef == nil {
			return fr.vals[best], true
		}
	}
	if bestRef != nil {
		v := x.get(st, fr, bestRef.X)
		if bestRef.IsAddr {
			if v.K == KPtr && v.Ptr != nil {
				return x.load(st, v.Ptr), true
			}
		}
		return v, true
	}
	if best != nil {
		return fr.vals[best], true
	}
	return Val{}, false
}

// allocNamed finds the allocation backing the named source variable (ssa.Alloc comment), if bound in this frame.
func allocNamed(fr *Frame, name string) *ssa.Alloc {
	var best *ssa.Alloc
	for _, b := range fr.fn.Blocks {
		for _, in := range b.Instrs {
			if al, ok := in.(*ssa.Alloc); ok && al.Comment == name {
				if _, bound := fr.vals[al]; bound && (best == nil || al.Pos() > best.Pos()) {
					best = al
				}
			}
		}
	}
	return best
}
