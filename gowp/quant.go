package main

// Quantifier normalisation for robust e-matching.
//
// Array reads under a quantifier are rewritten so that every read used as a
// trigger has a plain bound variable as its index:
//
//   forall j. P(row[off+j], row[off+j+1])
//     ==>  forall u v. (v = u+1-off+off...) guard ==> P(row[u], row[v])   with :pattern (row[u] row[v])
//
// Bound variables occurring in exactly one "defining" read index are solved for
// (j := u - off); other reads get auxiliary variables tied by equations in the guard.
// The result is logically equivalent to the original formula.

import (
	"fmt"
	"strings"
	"sync"
)

type sexp struct {
	atom string
	kids []*sexp
}

func parseSexp(s string) *sexp {
	p := 0
	var rec func() *sexp
	skip := func() {
		for p < len(s) && (s[p] == ' ' || s[p] == '\n' || s[p] == '\t') {
			p++
		}
	}
	rec = func() *sexp {
		skip()
		if p >= len(s) {
			return nil
		}
		if s[p] == '(' {
			p++
			n := &sexp{}
			for {
				skip()
				if p >= len(s) {
					return n
				}
				if s[p] == ')' {
					p++
					return n
				}
				k := rec()
				if k == nil {
					return n
				}
				n.kids = append(n.kids, k)
			}
		}
		st := p
		for p < len(s) && s[p] != ' ' && s[p] != '(' && s[p] != ')' && s[p] != '\n' && s[p] != '\t' {
			p++
		}
		return &sexp{atom: s[st:p]}
	}
	return rec()
}

func (e *sexp) String() string {
	if e.kids == nil && e.atom != "" {
		return e.atom
	}
	var b strings.Builder
	e.write(&b)
	return b.String()
}

func (e *sexp) write(b *strings.Builder) {
	if e.kids == nil && e.atom != "" {
		b.WriteString(e.atom)
		return
	}
	b.WriteByte('(')
	for i, k := range e.kids {
		if i > 0 {
			b.WriteByte(' ')
		}
		k.write(b)
	}
	b.WriteByte(')')
}

func (e *sexp) isAtom() bool { return e.kids == nil && e.atom != "" }

func (e *sexp) head() string {
	if len(e.kids) > 0 && e.kids[0].isAtom() {
		return e.kids[0].atom
	}
	return ""
}

func (e *sexp) mentions(sym string) bool {
	if e.isAtom() {
		return e.atom == sym
	}
	for _, k := range e.kids {
		if k.mentions(sym) {
			return true
		}
	}
	return false
}

func (e *sexp) mentionsAny(syms []string) bool {
	for _, s := range syms {
		if e.mentions(s) {
			return true
		}
	}
	return false
}

func (e *sexp) count(sym string) int {
	if e.isAtom() {
		if e.atom == sym {
			return 1
		}
		return 0
	}
	n := 0
	for _, k := range e.kids {
		n += k.count(sym)
	}
	return n
}

func (e *sexp) subst(sym string, by *sexp) *sexp {
	if e.isAtom() {
		if e.atom == sym {
			return by
		}
		return e
	}
	n := &sexp{}
	for _, k := range e.kids {
		n.kids = append(n.kids, k.subst(sym, by))
	}
	return n
}

// replaceTerm replaces every occurrence of the term with text old by nw.
func (e *sexp) replaceTerm(old string, nw *sexp) *sexp {
	if e.String() == old {
		return nw
	}
	if e.isAtom() {
		return e
	}
	n := &sexp{}
	for _, k := range e.kids {
		n.kids = append(n.kids, k.replaceTerm(old, nw))
	}
	return n
}

func atom(s string) *sexp { return &sexp{atom: s} }
func app(op string, args ...*sexp) *sexp {
	n := &sexp{kids: []*sexp{atom(op)}}
	n.kids = append(n.kids, args...)
	return n
}

// solveFor solves  idx == u  for the variable j (occurring once, linearly with coefficient +1 or -1 under + and -).
func solveFor(idx *sexp, j string, u *sexp) (*sexp, bool) {
	if idx.isAtom() {
		if idx.atom == j {
			return u, true
		}
		return nil, false
	}
	switch idx.head() {
	case "+":
		which := -1
		for i, k := range idx.kids[1:] {
			if k.mentions(j) {
				if which >= 0 {
					return nil, false
				}
				which = i + 1
			}
		}
		if which < 0 {
			return nil, false
		}
		rest := u
		for i, k := range idx.kids[1:] {
			if i+1 != which {
				rest = app("-", rest, k)
			}
		}
		return solveFor(idx.kids[which], j, rest)
	case "-":
		if len(idx.kids) == 3 {
			if idx.kids[1].mentions(j) && !idx.kids[2].mentions(j) {
				return solveFor(idx.kids[1], j, app("+", u, idx.kids[2]))
			}
		}
	}
	return nil, false
}

type readTerm struct {
	text string
	row  *sexp
	idx  *sexp
}

func collectReads(e *sexp, bound []string, out *[]readTerm, seen map[string]bool) {
	if e.isAtom() {
		return
	}
	h := e.head()
	if h == "forall" || h == "exists" {
		return
	}
	if h == "select" && len(e.kids) == 3 && e.kids[2].mentionsAny(bound) && !e.kids[1].mentionsAny(bound) {
		t := e.String()
		if !seen[t] {
			seen[t] = true
			*out = append(*out, readTerm{t, e.kids[1], e.kids[2]})
		}
		return
	}
	for _, k := range e.kids[1:] {
		collectReads(k, bound, out, seen)
	}
	if !e.kids[0].isAtom() {
		collectReads(e.kids[0], bound, out, seen)
	}
}

var quantCounter int

// normalizeForall rewrites (forall (bound...) body) into an equivalent formula with trigger-friendly reads.
// It returns the complete SMT formula.
func normalizeForall(op string, bound []string, body string) string {
	first := normalizeForallAt(op, bound, body, 0)
	if op != "forall" || len(bound) != 1 {
		return first
	}
	// one bound variable read through several rows (tl[k], ul[k], result[k] ...): emit one equivalent copy
	// of the formula per row, each triggered by a read of that row, so that a ground read of any of
	// the rows instantiates the fact
	tree := parseSexp(body)
	if tree == nil {
		return first
	}
	var reads []readTerm
	collectReads(tree, bound, &reads, map[string]bool{})
	seenIdx := map[string]bool{}
	n := 0
	for _, r := range reads {
		if r.idx.count(bound[0]) == 1 && !seenIdx[r.idx.String()] {
			if _, ok := solveFor(r.idx, bound[0], atom("u")); ok {
				seenIdx[r.idx.String()] = true
				n++
			}
		}
	}
	if n <= 1 {
		return first
	}
	if n > 4 {
		n = 4
	}
	parts := []string{first}
	for k := 1; k < n; k++ {
		c := normalizeForallAt(op, bound, body, k)
		if t := parseSexp(c); t != nil {
			copyMu.Lock()
			triggerCopies[t.String()] = true
			copyMu.Unlock()
		}
		parts = append(parts, c)
	}
	return and(parts...)
}

// triggerCopies: formulas that are equivalent re-statements (other trigger) of a sibling conjunct;
// as goals they need not be proved again.
var (
	triggerCopies = map[string]bool{}
	copyMu        sync.Mutex
)

// normalizeForallAt: skip selects which candidate defining read (counted over distinct index texts) is used.
func normalizeForallAt(op string, bound []string, body string, skip int) string {
	binders := func(vs []string) string {
		var bs []string
		for _, v := range vs {
			bs = append(bs, "("+v+" Int)")
		}
		return strings.Join(bs, " ")
	}
	plain := "(" + op + " (" + binders(bound) + ") " + body + ")"
	if op != "forall" {
		return plain
	}
	tree := parseSexp(body)
	if tree == nil {
		return plain
	}
	var reads []readTerm
	collectReads(tree, bound, &reads, map[string]bool{})
	if len(reads) == 0 {
		return plain
	}
	// 1. defining read for each bound variable: index mentions only this bound variable, exactly once
	vars := append([]string(nil), bound...)
	var newVars []string
	var guards []*sexp
	defined := map[string]bool{}
	defRows := map[string]bool{}
	for _, j := range bound {
		toSkip := skip
		skipped := map[string]bool{}
		for ri := range reads {
			r := reads[ri]
			others := false
			for _, o := range bound {
				if o != j && r.idx.mentions(o) {
					others = true
				}
			}
			if others || r.idx.count(j) != 1 {
				continue
			}
			if skipped[r.idx.String()] {
				continue
			}
			quantCounter++
			u := fmt.Sprintf("qi_%d", quantCounter)
			sol, ok := solveFor(r.idx, j, atom(u))
			if !ok {
				continue
			}
			if toSkip > 0 {
				toSkip--
				skipped[r.idx.String()] = true
				continue
			}
			// replace this read (and reads of other rows at the same index) by row[u], then eliminate j
			idxText := r.idx.String()
			for _, r2 := range reads {
				if r2.idx.String() == idxText {
					tree = tree.replaceTerm(r2.text, app("select", r2.row, atom(u)))
				}
			}
			tree = tree.subst(j, sol)
			// remaining reads must be re-collected after substitution
			defined[j] = true
			defRows[r.row.String()] = true
			newVars = append(newVars, u)
			break
		}
	}
	for _, j := range vars {
		if !defined[j] {
			// a bound variable without a defining read: keep it as is
			newVars = append(newVars, j)
		}
	}
	// 2. remaining reads with non-variable indices get auxiliary variables
	reads = nil
	collectReads(tree, newVars, &reads, map[string]bool{})
	var pats []readTerm
	for _, r := range reads {
		if r.idx.isAtom() {
			pats = append(pats, r)
			continue
		}
		if !defRows[r.row.String()] {
			// reads of other rows stay ordinary terms (no trigger, no auxiliary variable)
			continue
		}
		quantCounter++
		v := fmt.Sprintf("qi_%d", quantCounter)
		guards = append(guards, app("=", atom(v), r.idx))
		nr := app("select", r.row, atom(v))
		tree = tree.replaceTerm(r.text, nr)
		newVars = append(newVars, v)
		pats = append(pats, readTerm{nr.String(), r.row, atom(v)})
	}
	// 3. patterns: reads grouped by row; a group is usable when it covers all variables
	groups := map[string][]string{}
	var order []string
	for _, p := range pats {
		k := p.row.String()
		if _, ok := groups[k]; !ok {
			order = append(order, k)
		}
		groups[k] = append(groups[k], p.text)
	}
	covers := func(terms []string) bool {
		for _, v := range newVars {
			found := false
			for _, t := range terms {
				if containsSym(t, v) {
					found = true
				}
			}
			if !found {
				return false
			}
		}
		return true
	}
	var patStrs []string
	for _, k := range order {
		if covers(groups[k]) {
			patStrs = append(patStrs, ":pattern ("+strings.Join(groups[k], " ")+")")
		}
	}
	if len(patStrs) == 0 {
		var all []string
		for _, p := range pats {
			all = append(all, p.text)
		}
		if covers(all) {
			patStrs = append(patStrs, ":pattern ("+strings.Join(all, " ")+")")
		}
	}
	nb := tree.String()
	if len(guards) > 0 {
		var gs []string
		for _, g := range guards {
			gs = append(gs, g.String())
		}
		nb = "(=> " + and(gs...) + " " + nb + ")"
	}
	if len(patStrs) == 0 {
		return "(forall (" + binders(newVars) + ") " + nb + ")"
	}
	return "(forall (" + binders(newVars) + ") (! " + nb + " " + strings.Join(patStrs, " ") + "))"
}

// splitGoal splits a goal of the shape  Q* (A => (and c1 .. cn))  into n goals Q* (A => ci)
// (Q* = forall binders / pattern annotations). Proving each part proves the whole.
func splitGoal(goal string) []string {
	t := parseSexp(goal)
	if t == nil {
		return []string{goal}
	}
	var conj func(e *sexp) []*sexp
	conj = func(e *sexp) []*sexp {
		if !e.isAtom() && e.head() == "and" {
			var r []*sexp
			for i, k := range e.kids[1:] {
				if i > 0 {
					copyMu.Lock()
					isCopy := triggerCopies[k.String()]
					copyMu.Unlock()
					if isCopy {
						continue
					}
				}
				r = append(r, conj(k)...)
			}
			return r
		}
		return []*sexp{e}
	}
	var variants func(e *sexp) []*sexp
	variants = func(e *sexp) []*sexp {
		if e.isAtom() {
			return []*sexp{e}
		}
		switch e.head() {
		case "forall":
			if len(e.kids) == 3 {
				var out []*sexp
				for _, v := range variants(e.kids[2]) {
					out = append(out, &sexp{kids: []*sexp{e.kids[0], e.kids[1], v}})
				}
				return out
			}
		case "!":
			var out []*sexp
			for _, v := range variants(e.kids[1]) {
				n := &sexp{kids: []*sexp{e.kids[0], v}}
				n.kids = append(n.kids, e.kids[2:]...)
				out = append(out, n)
			}
			return out
		case "=>":
			if len(e.kids) == 3 {
				var out []*sexp
				for _, v := range variants(e.kids[2]) {
					out = append(out, &sexp{kids: []*sexp{e.kids[0], e.kids[1], v}})
				}
				return out
			}
		case "and":
			return conj(e)
		}
		return []*sexp{e}
	}
	vs := variants(t)
	if len(vs) == 1 {
		return []string{vs[0].String()} // trigger copies dropped
	}
	if len(vs) == 0 || len(vs) > 24 {
		return []string{goal}
	}
	var out []string
	for _, v := range vs {
		out = append(out, v.String())
	}
	return out
}
