package main

// SMT script assembly and solver racing.

import (
	"sort"
	"os"
	"sync/atomic"
	"bytes"
	"context"
	"fmt"
	"os/exec"
	"strings"
	"sync"
	"time"
)

type Result struct {
	Verdict string // "unsat" | "sat" | "unknown"
	Solver  string
	Ms      int64
	Model   string
	Outputs map[string]string
}

const basePreamble = `(declare-datatypes ((Slice 0)) (((mk_slice (s_arr Int) (s_off Int) (s_len Int) (s_cap Int)))))
(declare-datatypes ((Err 0)) (((ErrNil) (ErrWantLarger (wl_size Int)) (ErrOther (eo_id Int)) (ErrSentinel (es_id Int)) (ErrPathNotExist (pe_id Int)) (ErrFileNotExist (fe_sd Int)) (ErrHTTP (he_id Int)) (ErrIO (io_id Int)))))
(define-fun slice_ok ((s Slice) (top Int)) Bool (and (<= (s_arr s) top) (<= 0 (s_off s)) (<= 0 (s_len s)) (<= (s_len s) (s_cap s)) (<= (+ (s_off s) (s_cap s)) 70368744177664) (=> (= (s_arr s) 0) (= (s_cap s) 0))))
(define-fun err_notexist ((e Err)) Bool (or ((_ is ErrPathNotExist) e) ((_ is ErrFileNotExist) e)))
(define-fun wrapu8 ((x Int)) Int (mod x 256))
(define-fun wrapu16 ((x Int)) Int (mod x 65536))
(define-fun wrapu32 ((x Int)) Int (mod x 4294967296))
(define-fun wrapu64 ((x Int)) Int (mod x 18446744073709551616))
(define-fun wrapi8 ((x Int)) Int (- (mod (+ x 128) 256) 128))
(define-fun wrapi16 ((x Int)) Int (- (mod (+ x 32768) 65536) 32768))
(define-fun wrapi32 ((x Int)) Int (- (mod (+ x 2147483648) 4294967296) 2147483648))
(define-fun wrapi64 ((x Int)) Int (- (mod (+ x 9223372036854775808) 18446744073709551616) 9223372036854775808))
(define-fun tdiv ((a Int) (b Int)) Int (ite (>= a 0) (div a b) (- (div (- a) b))))
(define-fun tmod ((a Int) (b Int)) Int (ite (>= a 0) (mod a b) (- (mod (- a) b))))
(declare-fun f64 (Int) (_ FloatingPoint 11 53))
(declare-fun f32 (Int) (_ FloatingPoint 8 24))
(declare-fun str_eq (Slice Slice) Bool)
(declare-fun fadd64 ((_ FloatingPoint 11 53) (_ FloatingPoint 11 53)) (_ FloatingPoint 11 53))
(declare-fun fsub64 ((_ FloatingPoint 11 53) (_ FloatingPoint 11 53)) (_ FloatingPoint 11 53))
(declare-fun fmul64 ((_ FloatingPoint 11 53) (_ FloatingPoint 11 53)) (_ FloatingPoint 11 53))
(declare-fun fdiv64 ((_ FloatingPoint 11 53) (_ FloatingPoint 11 53)) (_ FloatingPoint 11 53))
(declare-fun fadd32 ((_ FloatingPoint 8 24) (_ FloatingPoint 8 24)) (_ FloatingPoint 8 24))
(declare-fun fsub32 ((_ FloatingPoint 8 24) (_ FloatingPoint 8 24)) (_ FloatingPoint 8 24))
(declare-fun fmul32 ((_ FloatingPoint 8 24) (_ FloatingPoint 8 24)) (_ FloatingPoint 8 24))
(declare-fun fdiv32 ((_ FloatingPoint 8 24) (_ FloatingPoint 8 24)) (_ FloatingPoint 8 24))
(assert (= (f64 0) (_ +zero 11 53)))
(assert (= (f64 9223372036854775808) (_ -zero 11 53)))
(assert (fp.isNaN (f64 9221120237041090561)))
(assert (= (f64 9218868437227405312) (_ +oo 11 53)))
(assert (= (f64 18442240474082181120) (_ -oo 11 53)))
(assert (= (f64 4607182418800017408) ((_ to_fp 11 53) RNE 1.0)))
(assert (= (f32 0) (_ +zero 8 24)))
(assert (= (f32 2147483648) (_ -zero 8 24)))
(assert (= (f32 1065353216) ((_ to_fp 8 24) RNE 1.0)))
`

func (P *Prog) preamble(reveal func(string) bool, text string) string {
	var b strings.Builder
	b.WriteString(basePreamble)
	b.WriteString(P.ss.declareDatatypes())
	P.mu.Lock()
	var dn []string
	for n := range P.derefDefs {
		if strings.Contains(text, "("+n+" ") {
			dn = append(dn, n)
		}
	}
	sort.Strings(dn)
	for _, n := range dn {
		b.WriteString(P.derefDefs[n])
	}
	P.mu.Unlock()
	b.WriteString(P.recDefs(reveal, text))
	return b.String()
}

func (o *Obligation) script(P *Prog, models bool) string { return o.scriptV(P, models, 0) }

// scriptV: hide = 0 reveals every opaque definition; 1 reveals only those the goal mentions
// (transitively); 2 reveals none. Withholding definitions weakens the hypotheses, so an
// unsat answer of any variant is a proof.
func (o *Obligation) scriptV(P *Prog, models bool, hide int) string {
	var b strings.Builder
	b.WriteString("(set-option :produce-models true)\n(set-logic ALL)\n")
	var reveal func(string) bool
	switch hide {
	case 1:
		set := map[string]bool{}
		for _, n := range P.opaqueNames() {
			set[n] = P.mentionsTransitively(o.Neg, n)
		}
		reveal = func(name string) bool { return set[name] }
	case 2:
		reveal = func(name string) bool { return false }
	case 3:
		set := map[string]bool{}
		for _, n := range P.opaqueNames() {
			set[n] = !P.isNonlinearDef(n)
		}
		reveal = func(name string) bool { return set[name] }
	}
	b.WriteString(symbolicArith(hide == 2 || hide == 3))
	b.WriteString(P.preamble(reveal, strings.Join(o.Facts, "\n")+"\n"+o.Neg))
	for _, d := range o.Decls {
		b.WriteString(d)
		b.WriteByte('\n')
	}
	for _, f := range o.Facts {
		b.WriteString("(assert ")
		b.WriteString(f)
		b.WriteString(")\n")
	}
	if o.Neg != "true" {
		b.WriteString("(assert ")
		b.WriteString(o.Neg)
		b.WriteString(")\n")
	}
	for _, eq := range P.groundUnfold(append(append([]string(nil), o.Facts...), o.Neg)) {
		b.WriteString("(assert ")
		b.WriteString(eq)
		b.WriteString(")\n")
	}
	for _, ax := range P.frameAxioms(append(append([]string(nil), o.Facts...), o.Neg)) {
		b.WriteString("(assert ")
		b.WriteString(ax)
		b.WriteString(")\n")
	}
	b.WriteString("(check-sat)\n")
	if models {
		b.WriteString("(get-model)\n")
	}
	return b.String()
}

type solverDef struct {
	name string
	args func(timeoutMs int) []string
}

var solvers = []solverDef{
	{"z3-new", func(t int) []string { return []string{"z3-new", "-in", "-smt2", fmt.Sprintf("-t:%d", t)} }},
	{"cvc5", func(t int) []string { return []string{"cvc5", "--lang=smt2", fmt.Sprintf("--tlimit=%d", t)} }},
	{"z3", func(t int) []string { return []string{"z3", "-in", "-smt2", fmt.Sprintf("-t:%d", t)} }},
}

func runSolver(ctx context.Context, sd solverDef, script string, timeoutMs int) (verdict, out string, ms int64) {
	args := sd.args(timeoutMs)
	c, cancel := context.WithTimeout(ctx, time.Duration(timeoutMs+2000)*time.Millisecond)
	defer cancel()
	cmd := exec.CommandContext(c, args[0], args[1:]...)
	cmd.Stdin = strings.NewReader(script)
	var buf bytes.Buffer
	cmd.Stdout = &buf
	cmd.Stderr = &buf
	t0 := time.Now()
	cmd.Run()
	ms = time.Since(t0).Milliseconds()
	out = buf.String()
	first := strings.TrimSpace(out)
	if i := strings.Index(first, "\n"); i >= 0 {
		first = strings.TrimSpace(first[:i])
	}
	switch {
	case first == "unsat" || first == "sat":
		verdict = first
	case strings.HasPrefix(first, "(error"):
		verdict = "error"
	default:
		verdict = "unknown"
	}
	return
}

// solve races solver x script-variant combinations on one obligation. Variants withhold
// definitions of opaque spec functions (weaker hypotheses), so unsat from any combination
// is a proof; sat / models are taken from the full variant only.
var scriptNanos int64

// retrySeeds: set during the sequential retry pass of check
var retrySeeds bool

func seeded(sd solverDef, seed int) solverDef {
	base := sd.args
	name := sd.name
	return solverDef{name: name, args: func(t int) []string {
		a := base(t)
		switch name {
		case "z3-new", "z3":
			a = append(a, fmt.Sprintf("smt.random_seed=%d", seed), fmt.Sprintf("sat.random_seed=%d", seed))
		case "cvc5":
			a = append(a, fmt.Sprintf("--seed=%d", seed))
		}
		return a
	}}
}

func solve(P *Prog, o *Obligation, timeoutMs int, all bool) *Result {
	tScript := time.Now()
	defer func() {}()
	full := o.script(P, true)
	atomic.AddInt64(&scriptNanos, int64(time.Since(tScript)))
	type job struct {
		sd      solverDef
		script  string
		variant int
	}
	var jobs []job
	for _, sd := range solvers {
		jobs = append(jobs, job{sd, full, 0})
	}
	if retrySeeds && !o.Cover {
		// retry pass: the same query under other random seeds (a proof under any seed is a proof)
		for _, seed := range []int{7, 23} {
			for _, sd := range solvers {
				sd2 := seeded(sd, seed)
				jobs = append(jobs, job{sd2, full, 0})
			}
		}
	}
	if !o.Cover && len(P.usedRec) > 0 {
		seen := map[string]bool{full: true}
		for _, hide := range []int{2, 3, 1} {
			sc := o.scriptV(P, true, hide)
			if seen[sc] {
				continue
			}
			seen[sc] = true
			for _, sd := range solvers {
				if sd.name == "cvc5" && hide != 2 {
					continue
				}
				if sd.name == "z3" && hide == 1 {
					continue
				}
				jobs = append(jobs, job{sd, sc, hide})
			}
		}
	}
	ctx, cancel := context.WithCancel(context.Background())
	defer cancel()
	type ans struct {
		name, verdict, out string
		ms                 int64
		variant            int
	}
	ch := make(chan ans, len(jobs))
	// staged start: the cheap combinations first; the rest only if nothing answered within 2 s
	// (most obligations are discharged in milliseconds, so the later stages rarely start)
	stage := func(jb job) int {
		switch {
		case jb.variant == 0 && jb.sd.name == "z3-new", jb.variant == 2 && jb.sd.name == "z3-new":
			return 0
		}
		return 1
	}
	if all || o.Cover {
		stage = func(job) int { return 0 }
	}
	stage1 := make(chan struct{}) // closed when every stage-0 job has answered inconclusively
	launch := func(jb job, delay time.Duration) {
		go func() {
			if delay > 0 {
				select {
				case <-time.After(delay):
				case <-stage1:
				case <-ctx.Done():
					ch <- ans{jb.sd.name, "cancelled", "", 0, jb.variant}
					return
				}
			}
			v, out, ms := runSolver(ctx, jb.sd, jb.script, timeoutMs)
			ch <- ans{jb.sd.name, v, out, ms, jb.variant}
		}()
	}
	pending0 := 0
	for _, jb := range jobs {
		if stage(jb) == 0 {
			pending0++
			launch(jb, 0)
		} else {
			launch(jb, 300*time.Millisecond)
		}
	}
	res := &Result{Verdict: "unknown", Outputs: map[string]string{}}
	var verdicts []string
	stageOf := map[string]int{}
	for _, jb := range jobs {
		stageOf[fmt.Sprintf("%s/%d", jb.sd.name, jb.variant)] = stage(jb)
	}
	var grace <-chan time.Time // cross-solver mode: after the first proof the others get 5 s more, not the whole budget
	for i := 0; i < len(jobs); i++ {
		var a ans
		select {
		case a = <-ch:
		case <-grace:
			cancel()
			if res.Solver == "" {
				res.Solver = strings.Join(verdicts, ",")
			}
			return res
		}
		if all && a.verdict == "unsat" && grace == nil {
			grace = time.After(5 * time.Second)
		}
		if stageOf[fmt.Sprintf("%s/%d", a.name, a.variant)] == 0 {
			pending0--
			if pending0 == 0 {
				close(stage1)
			}
		}
		tag := a.name
		if a.variant != 0 {
			tag = fmt.Sprintf("%s(hidden-defs:%d)", a.name, a.variant)
		}
		if a.variant == 0 {
			res.Outputs[a.name] = truncate(a.out, 4000)
			verdicts = append(verdicts, a.name+"="+a.verdict)
		}
		switch {
		case a.verdict == "unsat":
			if res.Verdict == "sat" {
				res.Verdict = "disagree"
				res.Solver = strings.Join(verdicts, ",")
				continue
			}
			if res.Verdict != "unsat" {
				res.Verdict, res.Solver, res.Ms = "unsat", tag, a.ms
			}
			if !all {
				cancel()
				return res
			}
		case a.verdict == "sat" && a.variant == 0:
			if res.Verdict == "unsat" {
				res.Verdict = "disagree"
				res.Solver = strings.Join(verdicts, ",")
				continue
			}
			if res.Verdict == "unknown" {
				res.Verdict, res.Solver, res.Ms, res.Model = "sat", a.name, a.ms, a.out
			}
			if !all {
				cancel()
				return res
			}
		default:
			if res.Verdict == "unknown" && a.ms > res.Ms {
				res.Ms = a.ms
			}
		}
	}
	if res.Solver == "" {
		res.Solver = strings.Join(verdicts, ",")
	}
	return res
}

func truncate(s string, n int) string {
	if len(s) > n {
		return s[:n] + "...[truncated]"
	}
	return s
}

func solveAll(P *Prog, obls []*Obligation, timeoutMs int, all bool, workers int) {
	var wg sync.WaitGroup
	ch := make(chan *Obligation)
	var mu sync.Mutex
	coverDone := map[string]bool{}
	for w := 0; w < workers; w++ {
		wg.Add(1)
		go func() {
			defer wg.Done()
			for o := range ch {
				if o.Cover {
					// one feasible path per return position is enough; covers get a short budget and
					// an inconclusive answer counts as feasible
					mu.Lock()
					done := coverDone[o.Name]
					mu.Unlock()
					if done {
						o.Result = &Result{Verdict: "skipped", Solver: "-", Outputs: map[string]string{}}
						continue
					}
					ct := timeoutMs
					if ct > 2500 {
						ct = 2500
					}
					o.Result = solve(P, o, ct, false)
					if o.Result.Verdict != "unsat" {
						mu.Lock()
						coverDone[o.Name] = true
						mu.Unlock()
					}
					continue
				}
				tw := time.Now()
				o.Result = solve(P, o, timeoutMs, all)
				if os.Getenv("GOWP_PROF") != "" {
					fmt.Fprintf(os.Stderr, "wall %v reported %dms %s %s\n", time.Since(tw).Round(time.Millisecond), o.Result.Ms, o.Result.Verdict, o.Name)
				}
			}
		}()
	}
	for _, o := range obls {
		ch <- o
	}
	close(ch)
	wg.Wait()
}

// symbolicArith declares the symbolic-operand arithmetic functions: interpreted, or uninterpreted
// (a sound weakening: every fact about them is then only congruence).
func symbolicArith(uninterpreted bool) string {
	if uninterpreted {
		return `(declare-fun mulS (Int Int) Int)
(declare-fun fdivS (Int Int) Int)
(declare-fun fmodS (Int Int) Int)
(declare-fun tdivS (Int Int) Int)
(declare-fun tmodS (Int Int) Int)
`
	}
	return `(define-fun mulS ((a Int) (b Int)) Int (* a b))
(define-fun fdivS ((a Int) (b Int)) Int (div a b))
(define-fun fmodS ((a Int) (b Int)) Int (mod a b))
(define-fun tdivS ((a Int) (b Int)) Int (ite (>= a 0) (div a b) (- (div (- a) b))))
(define-fun tmodS ((a Int) (b Int)) Int (ite (>= a 0) (mod a b) (- (mod (- a) b))))
`
}
