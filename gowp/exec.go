package main

// Path-based symbolic execution of SSA with in-place loop cutting.

import (
	"fmt"
	"go/constant"
	"go/token"
	"go/types"
	"math/big"
	"strings"

	"golang.org/x/tools/go/ssa"
)

type Obligation struct {
	Name   string
	Func   string
	Kind   string
	Label  string
	Props  []string
	Pos    string
	Goal   string // human-readable
	Decls  []string
	Facts  []string
	Neg    string // negated goal (SMT)
	Path   int
	Trace  []string
	Cover  bool // vacuity check: expected sat
	Result *Result
	replay *replayInfo
}

type deferred struct {
	fn   Val
	args []Val
	call *ssa.CallCommon
}

type Frame struct {
	fn       *ssa.Function
	vals     map[ssa.Value]Val
	parent   *Frame
	defers   []deferred
	cut      map[*ssa.BasicBlock]bool // loop heads already cut on this path
	cells    map[*ssa.Alloc]*Cell
	callSite ssa.CallInstruction // in parent
	callBlk  *ssa.BasicBlock
	callIdx  int
	kind     int // 0 normal call, 1 deferred call (resume RunDefers), 2 closure sequentialised
	inl      string
	loopSnap map[*ssa.BasicBlock]*Snapshot
	headSnap map[*ssa.BasicBlock]*Snapshot          // state at the start of an arbitrary iteration (after the invariant was assumed)
	headPhi  map[*ssa.BasicBlock]map[*ssa.Phi]Val // loop-carried values at the start of that iteration
	headCells map[*ssa.BasicBlock]map[*Cell]Val
	headCalls map[*ssa.BasicBlock]map[string]string // call counters at the start of the iteration
	curLoop  *Loop
	pendingDefers []deferred // for kind 1: remaining defers of parent
}

func (fr *Frame) clone() *Frame {
	if fr == nil {
		return nil
	}
	n := *fr
	n.parent = fr.parent.clone()
	n.vals = make(map[ssa.Value]Val, len(fr.vals))
	for k, v := range fr.vals {
		n.vals[k] = v
	}
	n.cut = map[*ssa.BasicBlock]bool{}
	for k, v := range fr.cut {
		n.cut[k] = v
	}
	n.cells = map[*ssa.Alloc]*Cell{}
	for k, v := range fr.cells {
		n.cells[k] = v
	}
	n.headSnap = map[*ssa.BasicBlock]*Snapshot{}
	for k, v := range fr.headSnap {
		n.headSnap[k] = v
	}
	n.headPhi = map[*ssa.BasicBlock]map[*ssa.Phi]Val{}
	for k, v := range fr.headPhi {
		n.headPhi[k] = v
	}
	n.headCells = map[*ssa.BasicBlock]map[*Cell]Val{}
	for k, v := range fr.headCells {
		n.headCells[k] = v
	}
	n.headCalls = map[*ssa.BasicBlock]map[string]string{}
	for k, v := range fr.headCalls {
		n.headCalls[k] = v
	}
	n.loopSnap = map[*ssa.BasicBlock]*Snapshot{}
	for k, v := range fr.loopSnap {
		n.loopSnap[k] = v
	}
	n.defers = append([]deferred(nil), fr.defers...)
	n.pendingDefers = append([]deferred(nil), fr.pendingDefers...)
	return &n
}

func (fr *Frame) depth() int {
	d := 0
	for f := fr; f != nil; f = f.parent {
		d++
	}
	return d
}

type Exec struct {
	P       *Prog
	fn      *ssa.Function
	key     string
	con     *Contract
	obls    []*Obligation
	fresh   int
	entry   *Snapshot
	params  map[string]Val
	paths   int
	forks   int
	covers  int
	noSafe  bool
	modset  []modTarget
	notes   []string
	usedExt map[string]bool
	inlined map[string]bool
	cellN   int
	cellCache map[*ssa.Alloc]bool
	usedLemmas []string
	curLemma    *Lemma
	checkEval   map[*Clause]int
	assertEval  map[*Clause]int
	curLemmaEnv *Env
	usedContracts map[string]bool
	replay  *replayInfo
	curRets []Val
	entrySt *State
}

const maxForks = 6000

func (x *Exec) newFrame(fn *ssa.Function, parent *Frame) *Frame {
	return &Frame{fn: fn, vals: map[ssa.Value]Val{}, parent: parent, cut: map[*ssa.BasicBlock]bool{},
		cells: map[*ssa.Alloc]*Cell{}, loopSnap: map[*ssa.BasicBlock]*Snapshot{}}
}

func (x *Exec) emit(st *State, kind, label, goalText, goal string, props []string, pos token.Pos, fr *Frame) {
	if goal == "true" {
		return
	}
	name := x.key + "." + kind
	if label != "" {
		name += "." + label
	}
	o := &Obligation{Name: name, Func: x.key, Kind: kind, Label: label, Props: props, Pos: x.P.pos(pos), Goal: goalText,
		Decls: append([]string(nil), st.decls...), Facts: append([]string(nil), st.facts...), Neg: not(goal), Path: x.paths,
		Trace: append([]string(nil), st.trace...)}
	if x.replay != nil && (fr == nil || fr.parent == nil) {
		ri := *x.replay
		ri.rets = x.curRets
		o.replay = &ri
	}
	x.obls = append(x.obls, o)
}

// check emits a safety obligation and then assumes it.
func (x *Exec) check(st *State, fr *Frame, kind, what, goal string, pos token.Pos) {
	if goal == "true" {
		return
	}
	if !x.noSafe {
		label := what
		if fr != nil && fr.inl != "" {
			label = fr.inl + "." + what
		}
		x.emit(st, "safety."+kind, label, what, goal, nil, pos, fr)
	}
	st.assume(goal)
}

// ------------------------------------------------------------------ values

func (x *Exec) constVal(c *ssa.Const) Val {
	t := c.Type()
	ss := x.P.ss
	if c.Value == nil {
		return x.nilOf(t)
	}
	switch ss.kindOf(t) {
	case KInt:
		if c.Value.Kind() == constant.Int {
			return Val{K: KInt, T: lit(c.Value.ExactString()), Typ: t}
		}
		if c.Value.Kind() == constant.Float {
			f, _ := constant.Float64Val(c.Value)
			return Val{K: KInt, T: lit(fmt.Sprintf("%d", int64(f))), Typ: t}
		}
	case KBool:
		return Val{K: KBool, T: fmt.Sprint(constant.BoolVal(c.Value)), Typ: t}
	case KFloat:
		w, _ := isFloat(t)
		f, _ := constant.Float64Val(constant.ToFloat(c.Value))
		return Val{K: KFloat, T: floatBits(f, w), Typ: t}
	case KSlice:
		if isString(t) {
			return x.stringConst(constant.StringVal(c.Value), t)
		}
	}
	bail("unsupported constant %v of type %v", c, t)
	return Val{}
}

// stringConst: string literals are rows in HS_string identified by a per-literal root.
func (x *Exec) stringConst(s string, t types.Type) Val {
	id, ok := x.P.strlits[s]
	if !ok {
		id = len(x.P.strlits) + 1
		x.P.strlits[s] = id
	}
	// roots of literals are negative so they never collide with allocated roots
	return Val{K: KSlice, T: fmt.Sprintf("(mk_slice (- %d) 0 %d %d)", id, len(s), len(s)), Typ: t}
}

func (x *Exec) get(st *State, fr *Frame, v ssa.Value) Val {
	switch v := v.(type) {
	case *ssa.Const:
		cv := x.constVal(v)
		if cv.K == KSlice && st != nil && v.Value != nil && v.Value.Kind() == constant.String {
			// the bytes of short string literals are known (literal rows are never written)
			if lit := constant.StringVal(v.Value); len(lit) > 0 && len(lit) <= 8 {
				key, el := x.sliceHeap(cv.Typ)
				h := st.heap(key, x.P.ss.heapSort(el, true))
				var eqs []string
				for j := 0; j < len(lit); j++ {
					eqs = append(eqs, sx("=", sx("select", sx("select", h, sArr(cv.T)), fmt.Sprint(j)), fmt.Sprint(int(lit[j]))))
				}
				f := and(eqs...)
				if !st.factSet[f] {
					st.assume(f)
				}
			}
		}
		return cv
	case *ssa.Function:
		return Val{K: KFunc, Fn: &Closure{Fn: v}, Typ: v.Type()}
	case *ssa.Global:
		return x.globalPtr(v)
	case *ssa.Builtin:
		bail("builtin %s used as a value", v.Name())
	}
	if val, ok := fr.vals[v]; ok {
		return val
	}
	if _, ok := v.(*ssa.FreeVar); ok {
		bail("free variable %s not bound", v.Name())
	}
	bail("value %s (%T) not available on this path in %s", v.Name(), v, fr.fn.Name())
	return Val{}
}

func (x *Exec) globalPtr(g *ssa.Global) Val {
	elem := g.Type().Underlying().(*types.Pointer).Elem()
	key := "G_" + sanitize(g.Pkg.Pkg.Path()+"."+g.Name())
	p := &Pointer{Heap: key, Elem: elem, Root: "1"}
	return Val{K: KPtr, Ptr: p, Typ: g.Type()}
}

// define binds an SSA value to a term through a fresh constant (keeps terms small).
func (x *Exec) define(st *State, fr *Frame, v ssa.Value, val Val) {
	switch val.K {
	case KInt, KBool, KFloat, KStruct, KSlice, KErr, KOpaque:
		if val.T != "" && !isLit(val.T) && strings.HasPrefix(val.T, "(") && val.T != "true" && val.T != "false" && !strings.HasPrefix(val.T, "(mk_slice ") && !isNegLit(val.T) {
			n := x.freshName(v.Name())
			sort := x.P.ss.sortOf(v.Type())
			if val.K == KBool {
				sort = "Bool"
			}
			st.declare(n, sort)
			st.assume(sx("=", n, val.T))
			if val.K == KBool && st.boolDef != nil {
				st.boolDef[n] = val.T
			}
			val.T = n
		}
	}
	fr.vals[v] = val
}

// ------------------------------------------------------------------ running

func (x *Exec) run(st *State, fr *Frame, b *ssa.BasicBlock, i int) {
	for ; i < len(b.Instrs); i++ {
		in := b.Instrs[i]
		switch in := in.(type) {
		case *ssa.DebugRef:
			if x.con != nil && len(x.con.AnchoredUses) > 0 && fr.parent == nil && !in.IsAddr && in.Object() != nil {
				x.anchoredUses(st, fr, in)
			}
			continue
		case *ssa.If:
			c := x.get(st, fr, in.Cond)
			x.branch(st, fr, b, c.T)
			return
		case *ssa.Jump:
			x.enterBlock(st, fr, b, b.Succs[0])
			return
		case *ssa.Return:
			var rets []Val
			for _, r := range in.Results {
				rets = append(rets, x.get(st, fr, r))
			}
			x.doReturn(st, fr, rets, in.Pos())
			return
		case *ssa.Panic:
			lbl := "explicit-panic"
			if fr.inl != "" {
				lbl = fr.inl + "." + lbl
			}
			if !x.noSafe {
				x.emit(st, "safety.unreachable", lbl, "panic statement is unreachable", "false", nil, in.Pos(), fr)
			}
			x.bumpPath()
			return
		case *ssa.Call:
			if x.call(st, fr, b, i, in, &in.Call) {
				return
			}
		case *ssa.Defer:
			fnv, args := x.calleeAndArgs(st, fr, &in.Call)
			fr.defers = append(fr.defers, deferred{fn: fnv, args: args, call: &in.Call})
		case *ssa.RunDefers:
			if len(fr.defers) > 0 {
				ds := fr.defers
				fr.defers = nil
				x.runDefers(st, fr, ds, b, i)
				return
			}
		case *ssa.Go:
			bail("go statement is outside the subset")
		default:
			x.simple(st, fr, in)
		}
	}
}

func (x *Exec) branch(st *State, fr *Frame, b *ssa.BasicBlock, cond string) {
	switch cond {
	case "true":
		x.enterBlock(st, fr, b, b.Succs[0])
		return
	case "false":
		x.enterBlock(st, fr, b, b.Succs[1])
		return
	}
	switch st.known(cond) {
	case "true":
		x.enterBlock(st, fr, b, b.Succs[0])
		return
	case "false":
		x.enterBlock(st, fr, b, b.Succs[1])
		return
	}
	if x.mergeDiamond(st, fr, b, cond) {
		return
	}
	x.forks++
	if x.forks > maxForks {
		bail("path budget exceeded (%d forks)", maxForks)
	}
	st2 := st.fork()
	fr2 := fr.clone()
	st.assume(cond)
	st.trace = append(st.trace, fmt.Sprintf("b%d:T", b.Index))
	x.enterBlock(st, fr, b, b.Succs[0])
	st2.assume(not(cond))
	st2.trace = append(st2.trace, fmt.Sprintf("b%d:F", b.Index))
	x.enterBlock(st2, fr2, b, b.Succs[1])
}

func (x *Exec) enterBlock(st *State, fr *Frame, from, to *ssa.BasicBlock) {
	li := x.P.loopInfo(fr.fn)
	loop := li.Loops[to]
	// evaluate phis on this edge
	edge := -1
	for i, p := range to.Preds {
		if p == from {
			edge = i
			break
		}
	}
	var phis []*ssa.Phi
	nphi := 0
	for _, in := range to.Instrs {
		if ph, ok := in.(*ssa.Phi); ok {
			phis = append(phis, ph)
			nphi++
		} else if _, ok := in.(*ssa.DebugRef); ok && nphi == len(phis) && len(phis) > 0 {
			// DebugRefs may be interleaved after phis; stop counting at first real instr
			continue
		} else {
			break
		}
	}
	first := 0
	for first < len(to.Instrs) {
		if _, ok := to.Instrs[first].(*ssa.Phi); ok {
			first++
			continue
		}
		break
	}
	incoming := make([]Val, len(phis))
	for i, ph := range phis {
		incoming[i] = x.get(st, fr, ph.Edges[edge])
	}
	if loop == nil {
		for i, ph := range phis {
			fr.vals[ph] = incoming[i]
		}
		x.run(st, fr, to, first)
		return
	}
	isBack := li.IsBack[[2]int{from.Index, to.Index}]
	if isBack {
		if !fr.cut[to] {
			bail("back edge reached before loop head was cut")
		}
		// bind phis to the values after one iteration and prove the invariants
		for i, ph := range phis {
			fr.vals[ph] = incoming[i]
		}
		x.loopInvariants(st, fr, loop, "step", false)
		x.bumpPath()
		return
	}
	// loop entry: establish, havoc, assume
	for i, ph := range phis {
		fr.vals[ph] = incoming[i]
	}
	snap := st.snapshot()
	fr.loopSnap[to] = snap
	x.loopInvariants(st, fr, loop, "init", false)
	x.havocLoop(st, fr, loop, phis)
	x.loopInvariants(st, fr, loop, "", true)
	if fr.headSnap == nil {
		fr.headSnap = map[*ssa.BasicBlock]*Snapshot{}
		fr.headPhi = map[*ssa.BasicBlock]map[*ssa.Phi]Val{}
	}
	fr.headSnap[to] = st.snapshot()
	hp := map[*ssa.Phi]Val{}
	for _, ph := range phis {
		hp[ph] = fr.vals[ph]
	}
	fr.headPhi[to] = hp
	if fr.headCells == nil {
		fr.headCells = map[*ssa.BasicBlock]map[*Cell]Val{}
	}
	hc := map[*Cell]Val{}
	for c, v := range st.cells {
		hc[c] = v
	}
	fr.headCells[to] = hc
	if fr.headCalls == nil {
		fr.headCalls = map[*ssa.BasicBlock]map[string]string{}
	}
	hcalls := map[string]string{}
	for k, v := range st.ghost {
		if strings.HasPrefix(k, "ncalls:") {
			hcalls[k] = v
		}
	}
	fr.headCalls[to] = hcalls
	fr.cut[to] = true
	x.run(st, fr, to, first)
}

func (x *Exec) doReturn(st *State, fr *Frame, rets []Val, pos token.Pos) {
	if fr.parent == nil {
		x.atExit(st, fr, rets, pos)
		x.bumpPath()
		return
	}
	parent := fr.parent
	switch fr.kind {
	case 1:
		// deferred call finished: continue with remaining defers of parent
		x.runDefers(st, parent, fr.pendingDefers, fr.callBlk, fr.callIdx)
		return
	case 3:
		// errgroup worker finished: fold its error into the group and continue after eg.Go
		if len(rets) == 1 {
			x.foldGroupError(st, fr, rets[0])
		}
		x.run(st, parent, fr.callBlk, fr.callIdx+1)
		return
	}
	var rv Val
	switch len(rets) {
	case 0:
		rv = Val{K: KTuple}
	case 1:
		rv = rets[0]
	default:
		rv = Val{K: KTuple, Tup: rets}
	}
	if fr.callSite != nil {
		if v := fr.callSite.Value(); v != nil {
			parent.vals[v] = rv
		}
	}
	x.run(st, parent, fr.callBlk, fr.callIdx+1)
}

func (x *Exec) runDefers(st *State, fr *Frame, ds []deferred, b *ssa.BasicBlock, i int) {
	if len(ds) == 0 {
		x.run(st, fr, b, i+1)
		return
	}
	d := ds[len(ds)-1]
	rest := ds[:len(ds)-1]
	took := x.invoke(st, fr, b, i, nil, d.call, d.fn, d.args, 1, rest)
	if !took {
		x.runDefers(st, fr, rest, b, i)
	}
}

// ------------------------------------------------------------------ simple instructions

func (x *Exec) simple(st *State, fr *Frame, in ssa.Instruction) {
	ss := x.P.ss
	switch in := in.(type) {
	case *ssa.Alloc:
		elem := in.Type().Underlying().(*types.Pointer).Elem()
		if a, ok := elem.Underlying().(*types.Array); ok {
			root := x.allocRoot(st, "arr")
			key := ss.heapKey(a.Elem(), true)
			hs := ss.heapSort(a.Elem(), true)
			h := st.heap(key, hs)
			x.setHeap(st, key, hs, sx("store", h, root, fmt.Sprintf("((as const (Array Int %s)) %s)", ss.sortOf(a.Elem()), ss.zero(a.Elem()))))
			fr.vals[in] = Val{K: KPtr, Typ: in.Type(), Ptr: &Pointer{Heap: key, Rows: true, Elem: a.Elem(), Root: root, Idx: "0", ArrLen: a.Len(), IsArr: true, Fresh: true}}
			return
		}
		_, isFuncT := elem.Underlying().(*types.Signature)
		if !in.Heap || isFuncT || x.cellable(in) {
			x.cellN++
			c := &Cell{id: x.cellN, typ: elem}
			fr.cells[in] = c
			if ss.kindOf(elem) == KPtr {
				st.cells[c] = x.nilOf(elem)
			} else if k := ss.kindOf(elem); k == KTuple || k == KFunc {
				// no initial value
			} else {
				st.cells[c] = x.mkVal(ss.zero(elem), elem)
			}
			fr.vals[in] = Val{K: KPtr, Typ: in.Type(), Ptr: &Pointer{Local: c, Elem: elem}}
			return
		}
		if _, isIface := elem.Underlying().(*types.Interface); ss.kindOf(elem) == KOpaque && !isIface {
			root := x.allocRoot(st, "new")
			if strings.HasSuffix(elem.String(), "errgroup.Group") {
				// the zero Group has no error yet
				h := st.heap("G_egerr", "(Array Int Err)")
				x.setHeap(st, "G_egerr", "(Array Int Err)", sx("store", h, root, "ErrNil"))
			}
			fr.vals[in] = Val{K: KPtr, Typ: in.Type(), Ptr: &Pointer{Heap: "", Elem: elem, Root: root, Fresh: true}}
			return
		}
		root := x.allocRoot(st, "new")
		key := ss.heapKey(elem, false)
		hs := ss.heapSort(elem, false)
		h := st.heap(key, hs)
		x.setHeap(st, key, hs, sx("store", h, root, ss.zero(elem)))
		fr.vals[in] = Val{K: KPtr, Typ: in.Type(), Ptr: &Pointer{Heap: key, Elem: elem, Root: root, Fresh: true}}
	case *ssa.BinOp:
		a := x.get(st, fr, in.X)
		b := x.get(st, fr, in.Y)
		x.define(st, fr, in, x.binop(st, fr, in, a, b))
	case *ssa.UnOp:
		a := x.get(st, fr, in.X)
		switch in.Op {
		case token.MUL:
			if a.K != KPtr || a.Ptr == nil {
				bail("load through non-pointer %v", in.X.Type())
			}
			x.nilCheck(st, fr, a, in.Pos())
			if a.Ptr.Heap == "" && a.Ptr.Local == nil && a.Ptr.ExtField {
				// read of a field of an external object: unknown value
				x.note("reads of fields of external objects yield unconstrained values")
				fr.vals[in] = x.freshVal(st, "ext", in.Type())
				return
			}
			if g, ok := in.X.(*ssa.Global); ok && isErrorType(in.Type()) && x.P.globalConst(g) {
				// package-level error variable that is never reassigned: a sentinel value
				fr.vals[in] = Val{K: KErr, Typ: in.Type(), T: x.sentinel(g.Pkg.Pkg.Path() + "." + g.Name())}
				return
			}
			v := x.load(st, a.Ptr)
			v.Typ = in.Type()
			if v.K == KInt || v.K == KFloat || v.K == KSlice || v.K == KStruct {
				if a.Ptr.Local == nil {
					x.define(st, fr, in, v)
					st.assume(ss.rangeFact(in.Type(), fr.vals[in].T, st.top))
					return
				}
			}
			if v.K == KPtr && a.Ptr.Local == nil && v.Ptr != nil {
				st.assume(ss.rangeFact(in.Type(), v.Ptr.Root, st.top))
			}
			fr.vals[in] = v
		case token.SUB:
			if a.K == KFloat {
				w, _ := isFloat(in.Type())
				r := x.freshVal(st, "fneg", in.Type())
				st.assume(sx("=", fpTerm(r, w), sx("fp.neg", fpTerm(a, w))))
				fr.vals[in] = r
				return
			}
			x.define(st, fr, in, Val{K: KInt, Typ: in.Type(), T: x.wrap(in.Type(), sx("-", a.T))})
		case token.NOT:
			x.define(st, fr, in, Val{K: KBool, Typ: in.Type(), T: not(a.T)})
		case token.XOR:
			r, _ := intRange(in.Type())
			if r.Signed {
				x.define(st, fr, in, Val{K: KInt, Typ: in.Type(), T: sx("-", sx("-", a.T), "1")})
			} else {
				x.define(st, fr, in, Val{K: KInt, Typ: in.Type(), T: sx("-", r.Hi, a.T)})
			}
		default:
			bail("unsupported unary operator %v", in.Op)
		}
	case *ssa.ChangeType:
		v := x.get(st, fr, in.X)
		v.Typ = in.Type()
		if v.K == KPtr && v.Ptr != nil {
			// pointer to differently named but identical underlying type
			np := *v.Ptr
			v.Ptr = &np
		}
		fr.vals[in] = v
	case *ssa.ChangeInterface:
		v := x.get(st, fr, in.X)
		if !isErrorType(in.Type()) && v.K == KErr {
			av := v
			n := x.freshName("iface")
			st.declare(n, "Int")
			st.assume(sx(">=", n, "1"))
			v = Val{K: KIface, Typ: in.Type(), Dyn: &av, T: n}
		}
		fr.vals[in] = v
	case *ssa.Convert:
		x.convert(st, fr, in)
	case *ssa.Extract:
		t := x.get(st, fr, in.Tuple)
		if t.K != KTuple || in.Index >= len(t.Tup) {
			bail("extract from non-tuple")
		}
		fr.vals[in] = t.Tup[in.Index]
	case *ssa.FieldAddr:
		a := x.get(st, fr, in.X)
		if a.K != KPtr || a.Ptr == nil {
			bail("FieldAddr on non-pointer")
		}
		x.nilCheck(st, fr, a, in.Pos())
		if a.Ptr.Heap == "" && a.Ptr.Local == nil {
			// field of an external (unmodelled) struct: an opaque location whose content is unknown
			ft := a.Ptr.Elem.Underlying().(*types.Struct).Field(in.Field).Type()
			fr.vals[in] = Val{K: KPtr, Typ: in.Type(), Ptr: &Pointer{Heap: "", Elem: ft, Root: a.Ptr.Root, Fresh: a.Ptr.Fresh, ExtField: true}}
			return
		}
		np := *a.Ptr
		np.Path = append(append([]int(nil), a.Ptr.Path...), in.Field)
		fr.vals[in] = Val{K: KPtr, Typ: in.Type(), Ptr: &np}
	case *ssa.Field:
		a := x.get(st, fr, in.X)
		if a.K != KStruct {
			bail("Field on non-struct value (%v)", in.X.Type())
		}
		s := ss.structSort(a.Typ)
		x.define(st, fr, in, x.mkVal(sx(s.Fields[in.Field].Name, a.T), in.Type()))
	case *ssa.IndexAddr:
		a := x.get(st, fr, in.X)
		idx := x.get(st, fr, in.Index)
		switch a.K {
		case KSlice:
			x.check(st, fr, "index", fmt.Sprintf("index-in-range@%s", x.P.pos(in.Pos())), and(sx("<=", "0", idx.T), sx("<", idx.T, sLen(a.T))), in.Pos())
			fr.vals[in] = Val{K: KPtr, Typ: in.Type(), Ptr: x.elemPtr(a, idx.T)}
		case KPtr:
			if a.Ptr == nil || !a.Ptr.IsArr {
				bail("IndexAddr on pointer to non-array")
			}
			x.nilCheck(st, fr, a, in.Pos())
			x.check(st, fr, "index", fmt.Sprintf("index-in-range@%s", x.P.pos(in.Pos())), and(sx("<=", "0", idx.T), sx("<", idx.T, fmt.Sprint(a.Ptr.ArrLen))), in.Pos())
			np := *a.Ptr
			np.Idx = plus(a.Ptr.Idx, idx.T)
			np.ArrLen = 0
			np.IsArr = false
			fr.vals[in] = Val{K: KPtr, Typ: in.Type(), Ptr: &np}
		default:
			bail("IndexAddr on %v", in.X.Type())
		}
	case *ssa.Lookup:
		a := x.get(st, fr, in.X)
		idx := x.get(st, fr, in.Index)
		if a.K != KSlice || !isString(a.Typ) {
			bail("map lookup is outside the subset")
		}
		x.check(st, fr, "index", fmt.Sprintf("string-index-in-range@%s", x.P.pos(in.Pos())), and(sx("<=", "0", idx.T), sx("<", idx.T, sLen(a.T))), in.Pos())
		v := x.load(st, x.elemPtr(a, idx.T))
		x.define(st, fr, in, v)
		st.assume(ss.rangeFact(in.Type(), fr.vals[in].T, st.top))
	case *ssa.Slice:
		x.sliceOp(st, fr, in)
	case *ssa.MakeSlice:
		ln := x.get(st, fr, in.Len)
		cp := x.get(st, fr, in.Cap)
		el := in.Type().Underlying().(*types.Slice).Elem()
		x.check(st, fr, "makeslice", fmt.Sprintf("make-len-in-range@%s", x.P.pos(in.Pos())),
			and(sx("<=", "0", ln.T), sx("<=", ln.T, cp.T), sx("<=", sx("*", cp.T, fmt.Sprint(sizeofType(el))), "281474976710656")), in.Pos())
		x.allocCheck(st, fr, sx("*", cp.T, fmt.Sprint(sizeofType(el))), in.Pos())
		root := x.allocRoot(st, "mk")
		key := ss.heapKey(el, true)
		hs := ss.heapSort(el, true)
		h := st.heap(key, hs)
		x.setHeap(st, key, hs, sx("store", h, root, fmt.Sprintf("((as const (Array Int %s)) %s)", ss.sortOf(el), ss.zero(el))))
		x.define(st, fr, in, Val{K: KSlice, Typ: in.Type(), T: sx("mk_slice", root, "0", ln.T, cp.T)})
	case *ssa.MakeInterface:
		x.makeInterface(st, fr, in)
	case *ssa.MakeClosure:
		var bs []Val
		for _, b := range in.Bindings {
			bs = append(bs, x.get(st, fr, b))
		}
		fr.vals[in] = Val{K: KFunc, Typ: in.Type(), Fn: &Closure{Fn: in.Fn.(*ssa.Function), Bindings: bs}}
	case *ssa.Store:
		a := x.get(st, fr, in.Addr)
		v := x.get(st, fr, in.Val)
		if a.K != KPtr || a.Ptr == nil {
			bail("store through non-pointer")
		}
		x.nilCheck(st, fr, a, in.Pos())
		if a.Ptr.Heap == "" && a.Ptr.Local == nil && a.Ptr.ExtField {
			if !a.Ptr.Fresh {
				bail("store into a field of a pre-existing external object")
			}
			x.note("stores into fields of freshly created external objects are not modelled")
			return
		}
		x.frameCheck(st, fr, a.Ptr, in.Pos())
		if a.Ptr.Local != nil && len(a.Ptr.Path) == 0 {
			st.cells[a.Ptr.Local] = v
			return
		}
		x.store(st, a.Ptr, v)
	case *ssa.TypeAssert:
		bail("type assertion is outside the subset")
	case *ssa.MakeMap, *ssa.MapUpdate, *ssa.Range, *ssa.Next, *ssa.Select, *ssa.Send, *ssa.MakeChan:
		bail("%T is outside the subset", in)
	case *ssa.Index:
		a := x.get(st, fr, in.X)
		if a.K != KSlice || !isString(a.Typ) {
			bail("array value indexing is outside the subset")
		}
		idx := x.get(st, fr, in.Index)
		x.check(st, fr, "index", fmt.Sprintf("string-index-in-range@%s", x.P.pos(in.Pos())), and(sx("<=", "0", idx.T), sx("<", idx.T, sLen(a.T))), in.Pos())
		v := x.load(st, x.elemPtr(a, idx.T))
		x.define(st, fr, in, v)
		st.assume(ss.rangeFact(in.Type(), fr.vals[in].T, st.top))
	default:
		bail("unsupported instruction %T", in)
	}
}

func sizeofType(t types.Type) int64 {
	return types.SizesFor("gc", "amd64").Sizeof(t)
}

func (x *Exec) nilCheck(st *State, fr *Frame, a Val, pos token.Pos) {
	n := x.isNil(a)
	if n == "false" {
		return
	}
	x.check(st, fr, "nil", fmt.Sprintf("non-nil@%s", x.P.pos(pos)), not(n), pos)
}

func (x *Exec) wrap(t types.Type, term string) string {
	r, ok := intRange(t)
	if !ok {
		bail("wrap of non-integer type %v", t)
	}
	if isLit(term) {
		return term
	}
	name := "wrap"
	if r.Signed {
		name += "i"
	} else {
		name += "u"
	}
	return sx(fmt.Sprintf("%s%d", name, r.Bits), term)
}

func floatBits(f float64, w int) string {
	if w == 32 {
		return fmt.Sprint(f32bits(float32(f)))
	}
	return fmt.Sprint(f64bits(f))
}

func (x *Exec) binop(st *State, fr *Frame, in *ssa.BinOp, a, b Val) Val {
	t := in.Type()
	op := in.Op
	cmp := func(f string) Val { return Val{K: KBool, Typ: t, T: f} }
	switch a.K {
	case KInt:
		at := in.X.Type()
		switch op {
		case token.ADD:
			return x.arith(t, "+", a, b)
		case token.SUB:
			return x.arith(t, "-", a, b)
		case token.MUL:
			return x.arith(t, "*", a, b)
		case token.QUO:
			x.check(st, fr, "div0", fmt.Sprintf("divisor-nonzero@%s", x.P.pos(in.Pos())), not(sx("=", b.T, "0")), in.Pos())
			return Val{K: KInt, Typ: t, T: x.wrap(t, tdiv(a.T, b.T))}
		case token.REM:
			x.check(st, fr, "div0", fmt.Sprintf("divisor-nonzero@%s", x.P.pos(in.Pos())), not(sx("=", b.T, "0")), in.Pos())
			return Val{K: KInt, Typ: t, T: tmod(a.T, b.T)}
		case token.EQL:
			return cmp(sx("=", a.T, b.T))
		case token.NEQ:
			return cmp(not(sx("=", a.T, b.T)))
		case token.LSS:
			return cmp(sx("<", a.T, b.T))
		case token.LEQ:
			return cmp(sx("<=", a.T, b.T))
		case token.GTR:
			return cmp(sx(">", a.T, b.T))
		case token.GEQ:
			return cmp(sx(">=", a.T, b.T))
		case token.SHL:
			if isLit(b.T) {
				var n int
				fmt.Sscan(b.T, &n)
				if n < 64 {
					return Val{K: KInt, Typ: t, T: x.wrap(t, sx("*", a.T, pow2(n)))}
				}
			}
		case token.SHR:
			if isLit(b.T) {
				var n int
				fmt.Sscan(b.T, &n)
				if n < 64 {
					return Val{K: KInt, Typ: t, T: sx("div", a.T, pow2(n))}
				}
			}
		case token.AND:
			// x & (2^k-1) for non-negative x
			if isLit(b.T) {
				var n uint64
				fmt.Sscan(b.T, &n)
				if n != 0 && (n&(n+1)) == 0 {
					if r, _ := intRange(at); !r.Signed {
						return Val{K: KInt, Typ: t, T: sx("mod", a.T, fmt.Sprint(n+1))}
					}
				}
			}
		}
		// uninterpreted bit operation (sound: result only range-constrained)
		r := x.freshVal(st, "bitop", t)
		x.note("bit operation %v at %s left uninterpreted", op, x.P.pos(in.Pos()))
		return r
	case KBool:
		switch op {
		case token.EQL:
			return cmp(sx("=", a.T, b.T))
		case token.NEQ:
			return cmp(not(sx("=", a.T, b.T)))
		}
	case KFloat:
		w, _ := isFloat(in.X.Type())
		fa, fb := fpTerm(a, w), fpTerm(b, w)
		switch op {
		case token.ADD, token.SUB, token.MUL, token.QUO:
			fop := map[token.Token]string{token.ADD: "fadd", token.SUB: "fsub", token.MUL: "fmul", token.QUO: "fdiv"}[op]
			r := x.freshVal(st, "f", t)
			st.assume(sx("=", fpTerm(r, w), sx(fmt.Sprintf("%s%d", fop, w), fa, fb)))
			return r
		case token.EQL:
			return cmp(sx("fp.eq", fa, fb))
		case token.NEQ:
			return cmp(not(sx("fp.eq", fa, fb)))
		case token.LSS:
			return cmp(sx("fp.lt", fa, fb))
		case token.LEQ:
			return cmp(sx("fp.leq", fa, fb))
		case token.GTR:
			return cmp(sx("fp.gt", fa, fb))
		case token.GEQ:
			return cmp(sx("fp.geq", fa, fb))
		}
	case KPtr:
		eq := x.ptrEq(a, b)
		if op == token.EQL {
			return cmp(eq)
		}
		if op == token.NEQ {
			return cmp(not(eq))
		}
	case KErr, KOpaque:
		var eq string
		if a.K == KErr && b.K == KErr {
			eq = sx("=", a.T, b.T)
		} else if b.K == KFunc || a.K == KFunc {
			eq = "false"
		} else {
			eq = sx("=", x.termOf(a), x.termOf(b))
		}
		if op == token.EQL {
			return cmp(eq)
		}
		if op == token.NEQ {
			return cmp(not(eq))
		}
	case KIface:
		// comparison of a concrete interface value with nil
		if op == token.EQL {
			return cmp("false")
		}
		if op == token.NEQ {
			return cmp("true")
		}
	case KFunc:
		if op == token.EQL {
			return cmp("false")
		}
		if op == token.NEQ {
			return cmp("true")
		}
	case KSlice:
		if isString(in.X.Type()) {
			switch op {
			case token.EQL, token.NEQ:
				eq := x.stringEq(st, a, b)
				if op == token.NEQ {
					eq = not(eq)
				}
				return cmp(eq)
			case token.ADD:
				r := x.freshVal(st, "concat", t)
				st.assume(sx("=", sLen(r.T), sx("+", sLen(a.T), sLen(b.T))))
				return r
			}
		} else {
			// slice == nil
			eq := sx("=", sArr(a.T), sArr(b.T))
			if op == token.EQL {
				return cmp(eq)
			}
			if op == token.NEQ {
				return cmp(not(eq))
			}
		}
	}
	bail("unsupported binary operation %v on %v", op, in.X.Type())
	return Val{}
}

// stringEq: equality of strings. Exact when one side is a literal of known content.
func (x *Exec) stringEq(st *State, a, b Val) string {
	if a.T == b.T {
		return "true"
	}
	// Strings are compared by an uninterpreted relation that is implied by identical headers.
	return sx("str_eq", a.T, b.T)
}

func (x *Exec) note(format string, a ...interface{}) {
	s := fmt.Sprintf(format, a...)
	for _, n := range x.notes {
		if n == s {
			return
		}
	}
	x.notes = append(x.notes, s)
}

func (x *Exec) convert(st *State, fr *Frame, in *ssa.Convert) {
	ss := x.P.ss
	a := x.get(st, fr, in.X)
	from, to := in.X.Type(), in.Type()
	fk, tk := ss.kindOf(from), ss.kindOf(to)
	switch {
	case fk == KInt && tk == KInt:
		alo, ahi, ok1 := a.bounds()
		tlo, thi, _ := typeBounds(to)
		if ok1 && alo.Cmp(tlo) >= 0 && ahi.Cmp(thi) <= 0 {
			// value provably fits: conversion is the identity
			fr.vals[in] = Val{K: KInt, Typ: to, T: a.T, Lo: alo, Hi: ahi}
			return
		}
		x.define(st, fr, in, Val{K: KInt, Typ: to, T: x.wrap(to, a.T)})
	case fk == KInt && tk == KFloat:
		w, _ := isFloat(to)
		r := x.freshVal(st, "i2f", to)
		st.assume(sx("=", fpTerm(r, w), fpTerm(Val{K: KInt, T: "(+ 0 " + a.T + ")"}, w)))
		if isLit(a.T) {
			var n int64
			fmt.Sscan(a.T, &n)
			r = Val{K: KFloat, Typ: to, T: floatBits(float64(n), w)}
		}
		fr.vals[in] = r
	case fk == KFloat && tk == KFloat:
		wf, _ := isFloat(from)
		wt, _ := isFloat(to)
		if wf == wt {
			a.Typ = to
			fr.vals[in] = a
			return
		}
		r := x.freshVal(st, "f2f", to)
		if wt == 64 {
			st.assume(sx("=", fpTerm(r, 64), sx("(_ to_fp 11 53) RNE", fpTerm(a, 32))))
		} else {
			st.assume(sx("=", fpTerm(r, 32), sx("(_ to_fp 8 24) RNE", fpTerm(a, 64))))
		}
		fr.vals[in] = r
	case fk == KFloat && tk == KInt:
		r := x.freshVal(st, "f2i", to)
		x.note("float-to-int conversion at %s left uninterpreted", x.P.pos(in.Pos()))
		fr.vals[in] = r
	case fk == KSlice && tk == KSlice:
		// string <-> []byte: contents copied; modelled as a fresh slice/string of equal length
		r := x.freshVal(st, "conv", to)
		st.assume(sx("=", sLen(r.T), sLen(a.T)))
		fr.vals[in] = r
	case fk == KInt && tk == KSlice:
		r := x.freshVal(st, "runestr", to)
		fr.vals[in] = r
	case fk == KPtr && tk == KOpaque, fk == KOpaque && tk == KPtr, fk == KOpaque && tk == KOpaque:
		bail("unsafe pointer conversion is outside the subset")
	default:
		bail("unsupported conversion %v -> %v", from, to)
	}
}

func fitsIn(a, b IntRange) bool {
	if a.Signed == b.Signed {
		return a.Bits <= b.Bits
	}
	if !a.Signed && b.Signed {
		return a.Bits < b.Bits
	}
	return false
}

func (x *Exec) sliceOp(st *State, fr *Frame, in *ssa.Slice) {
	a := x.get(st, fr, in.X)
	lo := "0"
	if in.Low != nil {
		lo = x.get(st, fr, in.Low).T
	}
	if in.Max != nil {
		bail("3-index slice is outside the subset")
	}
	switch a.K {
	case KSlice:
		isStr := isString(a.Typ)
		hi := sLen(a.T)
		lim := sCap(a.T)
		if isStr {
			lim = sLen(a.T)
		}
		if in.High != nil {
			hi = x.get(st, fr, in.High).T
		}
		x.check(st, fr, "slice", fmt.Sprintf("slice-bounds@%s", x.P.pos(in.Pos())), and(sx("<=", "0", lo), sx("<=", lo, hi), sx("<=", hi, lim)), in.Pos())
		if in.High != nil && !isStr {
			// engine limit: the capacity region behind len is not modelled (append reallocation leaves junk there)
			x.check(st, fr, "slice", fmt.Sprintf("reslice-within-len@%s", x.P.pos(in.Pos())), sx("<=", hi, sLen(a.T)), in.Pos())
		}
		x.define(st, fr, in, Val{K: KSlice, Typ: in.Type(), T: sx("mk_slice", sArr(a.T), plus(sOff(a.T), lo), minus(hi, lo), minus(lim, lo))})
	case KPtr:
		if a.Ptr == nil || !a.Ptr.IsArr {
			bail("slice of pointer to non-array")
		}
		x.nilCheck(st, fr, a, in.Pos())
		n := fmt.Sprint(a.Ptr.ArrLen)
		hi := n
		if in.High != nil {
			hi = x.get(st, fr, in.High).T
		}
		x.check(st, fr, "slice", fmt.Sprintf("slice-bounds@%s", x.P.pos(in.Pos())), and(sx("<=", "0", lo), sx("<=", lo, hi), sx("<=", hi, n)), in.Pos())
		x.define(st, fr, in, Val{K: KSlice, Typ: in.Type(), T: sx("mk_slice", a.Ptr.Root, plus(a.Ptr.Idx, lo), minus(hi, lo), minus(n, lo))})
	default:
		bail("slice of %v", in.X.Type())
	}
}

func (x *Exec) makeInterface(st *State, fr *Frame, in *ssa.MakeInterface) {
	a := x.get(st, fr, in.X)
	if isErrorType(in.Type()) {
		fr.vals[in] = x.toError(st, a, in.X.Type())
		return
	}
	av := a
	n := x.freshName("iface")
	st.declare(n, "Int")
	st.assume(sx(">=", n, "1"))
	fr.vals[in] = Val{K: KIface, Typ: in.Type(), Dyn: &av, T: n}
}

// toError converts a concrete error implementation to the Err datatype.
func (x *Exec) toError(st *State, a Val, t types.Type) Val {
	et := types.Universe.Lookup("error").Type()
	name := t.String()
	switch {
	case strings.HasSuffix(name, "whispertool.WantLargerBufferError"):
		sz := x.load(st, &Pointer{Heap: a.Ptr.Heap, Elem: a.Ptr.Elem, Root: a.Ptr.Root, Local: a.Ptr.Local, Path: []int{0}})
		return Val{K: KErr, Typ: et, T: sx("ErrWantLarger", sz.T)}
	case strings.HasSuffix(name, "os.PathError"), strings.HasSuffix(name, "fs.PathError"):
		// only constructed with Err: os.ErrNotExist in this code base (checked by the trusted contract list)
		r := x.freshName("patherr")
		st.declare(r, "Int")
		return Val{K: KErr, Typ: et, T: sx("ErrPathNotExist", r)}
	case strings.HasSuffix(name, "cmd.fileNotExistError"):
		sd := x.load(st, &Pointer{Heap: a.Ptr.Heap, Elem: a.Ptr.Elem, Root: a.Ptr.Root, Local: a.Ptr.Local, Path: []int{0}})
		return Val{K: KErr, Typ: et, T: sx("ErrFileNotExist", sd.T)}
	case strings.HasSuffix(name, "cmd.httpError"):
		r := x.freshName("httperr")
		st.declare(r, "Int")
		return Val{K: KErr, Typ: et, T: sx("ErrHTTP", r)}
	case strings.HasSuffix(name, "cmd.RequiredOptionError"):
		r := x.freshName("reqerr")
		st.declare(r, "Int")
		return Val{K: KErr, Typ: et, T: sx("ErrOther", r)}
	}
	bail("conversion of %v to error is not modelled", t)
	return Val{}
}

func isNegLit(s string) bool {
	return strings.HasPrefix(s, "(- ") && strings.HasSuffix(s, ")") && isLit(s[3:len(s)-1])
}

// ---- static integer bounds (used only to drop wrap-around terms that cannot fire)

func bigOf(s string) *big.Int {
	v, _ := new(big.Int).SetString(s, 10)
	return v
}

func typeBounds(t types.Type) (*big.Int, *big.Int, bool) {
	r, ok := intRange(t)
	if !ok {
		return nil, nil, false
	}
	return bigOf(r.Lo), bigOf(r.Hi), true
}

func (v Val) bounds() (*big.Int, *big.Int, bool) {
	if v.K != KInt {
		return nil, nil, false
	}
	if n, ok := litBig(v.T); ok {
		return n, n, true
	}
	if v.Lo != nil && v.Hi != nil {
		return v.Lo, v.Hi, true
	}
	if v.Typ != nil {
		return typeBounds(v.Typ)
	}
	return nil, nil, false
}

func litBig(s string) (*big.Int, bool) {
	if isLit(s) {
		return bigOf(s), true
	}
	if isNegLit(s) {
		n := bigOf(s[3 : len(s)-1])
		return n.Neg(n), true
	}
	return nil, false
}

// arith builds the result of a wrapping +,-,* : the wrap is omitted when static bounds show it is the identity.
func (x *Exec) arith(t types.Type, op string, a, b Val) Val {
	term := sx(op, a.T, b.T)
	if op == "*" {
		term = mulT(a.T, b.T)
	}
	res := Val{K: KInt, Typ: t}
	alo, ahi, ok1 := a.bounds()
	blo, bhi, ok2 := b.bounds()
	tlo, thi, ok3 := typeBounds(t)
	if ok1 && ok2 && ok3 {
		var lo, hi *big.Int
		switch op {
		case "+":
			lo, hi = new(big.Int).Add(alo, blo), new(big.Int).Add(ahi, bhi)
		case "-":
			lo, hi = new(big.Int).Sub(alo, bhi), new(big.Int).Sub(ahi, blo)
		case "*":
			c := []*big.Int{new(big.Int).Mul(alo, blo), new(big.Int).Mul(alo, bhi), new(big.Int).Mul(ahi, blo), new(big.Int).Mul(ahi, bhi)}
			lo, hi = c[0], c[0]
			for _, v := range c[1:] {
				if v.Cmp(lo) < 0 {
					lo = v
				}
				if v.Cmp(hi) > 0 {
					hi = v
				}
			}
		}
		if lo != nil && lo.Cmp(tlo) >= 0 && hi.Cmp(thi) <= 0 {
			res.T, res.Lo, res.Hi = term, lo, hi
			return res
		}
	}
	res.T = x.wrap(t, term)
	return res
}

// cellable reports whether a heap-allocated variable can be kept as a path-local cell:
// its address is only dereferenced, offset into, or passed by reference to callees that
// are handled by contract or inlining; it is never stored, returned, merged or boxed.
func (x *Exec) cellable(a *ssa.Alloc) bool {
	if v, ok := x.cellCache[a]; ok {
		return v
	}
	var ok func(v ssa.Value, depth int) bool
	ok = func(v ssa.Value, depth int) bool {
		if depth > 8 {
			return false
		}
		refs := v.Referrers()
		if refs == nil {
			return false
		}
		for _, u := range *refs {
			switch u := u.(type) {
			case *ssa.DebugRef:
			case *ssa.UnOp:
				if u.Op != token.MUL {
					return false
				}
			case *ssa.Store:
				if u.Val == v {
					return false
				}
			case *ssa.FieldAddr:
				if !ok(u, depth+1) {
					return false
				}
			case ssa.CallInstruction:
				cc := u.Common()
				if cc.IsInvoke() {
					return false
				}
				if _, isB := cc.Value.(*ssa.Builtin); isB {
					return false
				}
				callee := cc.StaticCallee()
				if callee == nil {
					return false
				}
				if _, isDefer := u.(*ssa.Defer); isDefer {
					return false
				}
				if _, isGo := u.(*ssa.Go); isGo {
					return false
				}
				if con := x.P.contractOf(callee); con != nil && !con.Inline {
					continue
				}
				if _, inrepo := x.P.fnKey[callee]; !inrepo {
					return false
				}
				// inlined callee: the parameter must itself be used in a cell-compatible way
				for i, arg := range cc.Args {
					if arg == v {
						if i >= len(callee.Params) || !x.paramCellable(callee.Params[i], depth+1) {
							return false
						}
					}
				}
			default:
				return false
			}
		}
		return true
	}
	if x.cellCache == nil {
		x.cellCache = map[*ssa.Alloc]bool{}
	}
	r := ok(a, 0)
	x.cellCache[a] = r
	return r
}

func (x *Exec) paramCellable(p *ssa.Parameter, depth int) bool {
	if depth > 8 {
		return false
	}
	refs := p.Referrers()
	if refs == nil {
		return true
	}
	var ok func(v ssa.Value, d int) bool
	ok = func(v ssa.Value, d int) bool {
		if d > 8 {
			return false
		}
		for _, u := range *v.Referrers() {
			switch u := u.(type) {
			case *ssa.DebugRef:
			case *ssa.UnOp:
				if u.Op != token.MUL {
					return false
				}
			case *ssa.Store:
				if u.Val == v {
					return false
				}
			case *ssa.FieldAddr:
				if !ok(u, d+1) {
					return false
				}
			case *ssa.BinOp:
				// comparison with nil
			case ssa.CallInstruction:
				cc := u.Common()
				callee := cc.StaticCallee()
				if cc.IsInvoke() || callee == nil {
					return false
				}
				if con := x.P.contractOf(callee); con != nil && !con.Inline {
					continue
				}
				if _, inrepo := x.P.fnKey[callee]; !inrepo {
					return false
				}
				for i, arg := range cc.Args {
					if arg == v {
						if i >= len(callee.Params) || !x.paramCellable(callee.Params[i], d+1) {
							return false
						}
					}
				}
			default:
				return false
			}
		}
		return true
	}
	return ok(p, depth)
}

// anchoredUses applies "use lemma(args) at V" the first time local variable V is bound on this path.
func (x *Exec) anchoredUses(st *State, fr *Frame, dr *ssa.DebugRef) {
	if _, ok := fr.vals[dr.X]; !ok {
		if _, isC := dr.X.(*ssa.Const); !isC {
			return
		}
	}
	x.anchoredByName(st, fr, dr.Object().Name())
}

func (x *Exec) anchoredByName(st *State, fr *Frame, name string) {
	for i, au := range x.con.AnchoredUses {
		if au.Anchor != name {
			continue
		}
		key := fmt.Sprintf("anchored:%d", i)
		if st.ghost[key] != "" {
			continue
		}
		st.ghost[key] = "1"
		env := &Env{st: st, vars: map[string]Val{}, pkg: x.con.Pkg, old: x.entry, fr: fr, localsFirst: true}
		for k, v := range x.params {
			env.vars[k] = v
		}
		x.useLemma(st, env, au.E, x.con.Props)
	}
}

// bumpPath counts a finished path; a function whose paths explode is reported as
// outside the engine's reach (mid-level callees need contracts) instead of running forever.
func (x *Exec) bumpPath() {
	x.paths++
	if x.paths > 6000 || len(x.obls) > 120000 {
		bail("path explosion: more than %d paths / %d obligations; give callees contracts", x.paths, len(x.obls))
	}
}

// mergeDiamond handles  if c { x = a } else { x = b }  (and the one-armed form) without forking the path when
// the arms only read fields of pointers already known to be non-nil: both arms are executed (they have no effects)
// and the phis of the join block become ite(c, a, b). Semantically the same as forking; halves the number of paths.
func (x *Exec) mergeDiamond(st *State, fr *Frame, b *ssa.BasicBlock, cond string) bool {
	if len(b.Succs) != 2 {
		return false
	}
	t, f := b.Succs[0], b.Succs[1]
	arm := func(blk, join *ssa.BasicBlock) bool { // blk is a side arm jumping to join
		if len(blk.Preds) != 1 || len(blk.Succs) != 1 || blk.Succs[0] != join {
			return false
		}
		known := map[ssa.Value]Val{}
		for i, in := range blk.Instrs {
			switch in := in.(type) {
			case *ssa.DebugRef:
			case *ssa.Jump:
				if i != len(blk.Instrs)-1 {
					return false
				}
			case *ssa.FieldAddr:
				pv, ok := known[in.X]
				if !ok {
					pv, ok = fr.vals[in.X]
				}
				if !ok || pv.K != KPtr || pv.Ptr == nil {
					return false
				}
				if pv.Ptr.Local == nil && !pv.Ptr.Fresh && !st.factSet[not(sx("=", x.termOf(pv), "0"))] {
					return false
				}
			case *ssa.UnOp:
				if in.Op != token.MUL {
					return false
				}
				if al, ok := in.X.(*ssa.Alloc); ok {
					// load of a local variable of this function
					pv, ok := fr.vals[al]
					if !ok || pv.K != KPtr || pv.Ptr == nil || len(pv.Ptr.Path) != 0 || (pv.Ptr.Local == nil && !pv.Ptr.Fresh) {
						return false
					}
					if pv.Ptr.Local != nil {
						if _, init := st.cells[pv.Ptr.Local]; !init {
							return false
						}
					}
					known[in] = x.load(st, pv.Ptr)
					continue
				}
				if _, ok := in.X.(*ssa.FieldAddr); !ok {
					return false
				}
				if in.X.(*ssa.FieldAddr).Block() != blk {
					return false
				}
			case *ssa.Store:
				// a store of a scalar into a variable of this function (captured locals are allocations)
				al, ok := in.Addr.(*ssa.Alloc)
				if !ok {
					return false
				}
				pv, ok := fr.vals[al]
				if !ok || pv.K != KPtr || pv.Ptr == nil || len(pv.Ptr.Path) != 0 || (pv.Ptr.Local == nil && !pv.Ptr.Fresh) {
					return false
				}
				switch x.P.ss.kindOf(al.Type().Underlying().(*types.Pointer).Elem()) {
				case KInt, KBool, KFloat:
				default:
					return false
				}
			default:
				return false
			}
		}
		return true
	}
	var join *ssa.BasicBlock
	var arms []*ssa.BasicBlock
	switch {
	case len(t.Succs) == 1 && len(f.Succs) == 1 && t.Succs[0] == f.Succs[0] && arm(t, t.Succs[0]) && arm(f, f.Succs[0]):
		join, arms = t.Succs[0], []*ssa.BasicBlock{t, f}
	case len(t.Succs) == 1 && t.Succs[0] == f && arm(t, f):
		join, arms = f, []*ssa.BasicBlock{t}
	case len(f.Succs) == 1 && f.Succs[0] == t && arm(f, t):
		join, arms = t, []*ssa.BasicBlock{f}
	default:
		return false
	}
	if join == t && len(arms) == 2 || len(join.Preds) != 2 {
		return false
	}
	li := x.P.loopInfo(fr.fn)
	if li.Loops[join] != nil || li.Loops[t] != nil || li.Loops[f] != nil {
		return false
	}
	// the phis of the join must be mergeable as terms
	var phis []*ssa.Phi
	first := 0
	for _, in := range join.Instrs {
		if ph, ok := in.(*ssa.Phi); ok {
			phis = append(phis, ph)
			first++
			continue
		}
		break
	}
	for _, ph := range phis {
		switch x.P.ss.kindOf(ph.Type()) {
		case KInt, KBool, KFloat, KErr, KSlice:
		default:
			return false
		}
	}
	type armStore struct {
		al  *ssa.Alloc
		val [2]*Val // value stored on the true / false side (nil: unchanged)
	}
	var stores []*armStore
	for _, blk := range arms {
		side := 0
		if blk == f {
			side = 1
		}
		for _, in := range blk.Instrs {
			if _, isJ := in.(*ssa.Jump); isJ {
				continue
			}
			if _, isD := in.(*ssa.DebugRef); isD {
				continue
			}
			if sti, isS := in.(*ssa.Store); isS {
				v := x.get(st, fr, sti.Val)
				al := sti.Addr.(*ssa.Alloc)
				var as *armStore
				for _, s0 := range stores {
					if s0.al == al {
						as = s0
					}
				}
				if as == nil {
					as = &armStore{al: al}
					stores = append(stores, as)
				}
				as.val[side] = &v
				continue
			}
			x.simple(st, fr, in)
		}
	}
	for _, as := range stores {
		pv := fr.vals[as.al]
		old := x.load(st, pv.Ptr)
		vt, vf := old, old
		if as.val[0] != nil {
			vt = *as.val[0]
		}
		if as.val[1] != nil {
			vf = *as.val[1]
		}
		n := x.freshName("ms_" + as.al.Comment)
		srt := x.P.ss.sortOf(as.al.Type().Underlying().(*types.Pointer).Elem())
		if old.K == KBool {
			srt = "Bool"
		}
		st.declare(n, srt)
		st.assume(sx("=", n, ite(cond, vt.T, vf.T)))
		mv := old
		mv.T = n
		mv.Lo, mv.Hi = nil, nil
		if pv.Ptr.Local != nil {
			st.cells[pv.Ptr.Local] = mv
		} else {
			x.store(st, pv.Ptr, mv)
		}
	}
	// predecessor of join on the true / false side
	predT, predF := t, f
	if join == f {
		predF = b
	}
	if join == t {
		predT = b
	}
	edgeOf := func(p *ssa.BasicBlock) int {
		for i, q := range join.Preds {
			if q == p {
				return i
			}
		}
		return -1
	}
	et, ef := edgeOf(predT), edgeOf(predF)
	if et < 0 || ef < 0 || et == ef {
		bail("internal: diamond edges")
	}
	vals := make([]Val, len(phis))
	for i, ph := range phis {
		vt, vf := x.get(st, fr, ph.Edges[et]), x.get(st, fr, ph.Edges[ef])
		if vt.T == vf.T {
			vals[i] = vt
			continue
		}
		n := x.freshName("m_" + ph.Comment)
		srt := x.P.ss.sortOf(ph.Type())
		if vt.K == KBool {
			srt = "Bool"
		}
		st.declare(n, srt)
		st.assume(sx("=", n, ite(cond, vt.T, vf.T)))
		mv := vt
		mv.T = n
		mv.Lo, mv.Hi = nil, nil
		vals[i] = mv
	}
	for i, ph := range phis {
		fr.vals[ph] = vals[i]
	}
	st.trace = append(st.trace, fmt.Sprintf("b%d:M", b.Index))
	if x.con != nil && fr.parent == nil {
		for _, ph := range phis {
			x.anchoredByName(st, fr, ph.Comment)
		}
		for _, as := range stores {
			x.anchoredByName(st, fr, as.al.Comment)
		}
	}
	x.run(st, fr, join, first)
	return true
}
