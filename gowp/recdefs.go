package main

// Opaque and recursive specification functions: emitted as uninterpreted functions
// with a defining axiom triggered only by applications of the function ("reveal on demand").

import (
	"fmt"
	"sort"
	"strings"
	"sync"
)

var _ sync.Mutex

func (P *Prog) recDefs(reveal func(name string) bool, text string) string {
	P.mu.Lock()
	defer P.mu.Unlock()
	var names []string
	for n := range P.usedRec {
		names = append(names, n)
	}
	sort.Strings(names)
	if P.recCache == nil {
		P.recCache = map[string]string{}
	}
	var b strings.Builder
	// definitions may use other opaque functions: iterate to a fixpoint
	done := map[string]bool{}
	for changed := true; changed; {
		changed = false
		names = names[:0]
		for n := range P.usedRec {
			names = append(names, n)
		}
		sort.Strings(names)
		for _, n := range names {
			if done[n] {
				continue
			}
			done[n] = true
			changed = true
			if _, ok := P.recCache[n]; !ok {
				P.buildRecDefLocked(P.specs.SpecFns[n])
			}
		}
	}
	// only the functions the obligation mentions (directly or through other definitions)
	if text != "" {
		need := map[string]bool{}
		var visit func(t string)
		visit = func(t string) {
			for _, n := range names {
				if !need[n] && containsSym(t, n) {
					need[n] = true
					visit(P.recCache[n])
					if tpl, ok := P.recTemplates[n]; ok {
						visit(tpl.body.String())
					}
				}
			}
		}
		visit(text)
		var keep []string
		for _, n := range names {
			if need[n] {
				keep = append(keep, n)
			}
		}
		names = keep
	}
	// declarations first, then axioms
	var decls, axioms []string
	for _, n := range names {
		parts := strings.SplitN(P.recCache[n], "\n", 2)
		decls = append(decls, parts[0])
		if len(parts) > 1 {
			axioms = append(axioms, parts[1])
		} else {
			axioms = append(axioms, "")
		}
	}
	for _, d := range decls {
		b.WriteString(d)
		b.WriteByte('\n')
	}
	for i, a := range axioms {
		if reveal != nil && !reveal(names[i]) {
			continue
		}
		b.WriteString(a)
		b.WriteByte('\n')
	}
	return b.String()
}

// ensureRecDef builds the SMT definition of an opaque/rec spec function on first use.
func (P *Prog) ensureRecDef(sf *SpecFunc) {
	P.mu.Lock()
	defer P.mu.Unlock()
	if P.recCache == nil {
		P.recCache = map[string]string{}
	}
	if _, ok := P.recCache[sf.Name]; ok || P.recBuilding[sf.Name] {
		return
	}
	P.buildRecDefLocked(sf)
}

type heapParam struct{ key, sort string }

func (P *Prog) buildRecDefLocked(sf *SpecFunc) {
	if P.recBuilding == nil {
		P.recBuilding = map[string]bool{}
	}
	if P.recHeapKeys == nil {
		P.recHeapKeys = map[string][]heapParam{}
	}
	P.recBuilding[sf.Name] = true
	defer delete(P.recBuilding, sf.Name)
	P.mu.Unlock() // evaluation may recurse into ensureRecDef of other functions
	defer P.mu.Lock()
	// pass 1 discovers the heaps the body reads; pass 2 builds the text with them as parameters
	def := ""
	for pass := 0; pass < 2; pass++ {
		d, heaps := P.buildRecDef(sf)
		def = d
		P.mu.Lock()
		changed := len(heaps) != len(P.recHeapKeys[sf.Name])
		P.recHeapKeys[sf.Name] = heaps
		P.mu.Unlock()
		if !changed {
			break
		}
	}
	P.mu.Lock()
	P.recCache[sf.Name] = def
	P.mu.Unlock()
}

func (P *Prog) buildRecDef(sf *SpecFunc) (string, []heapParam) {
	x := &Exec{P: P, key: "spec." + sf.Name, usedExt: map[string]bool{}, inlined: map[string]bool{}, usedContracts: map[string]bool{}}
	st := &State{declSet: map[string]bool{}, heaps: map[string]string{}, hsort: map[string]string{}, cells: map[*Cell]Val{},
		written: map[string]bool{}, ghost: map[string]string{}, boolDef: map[string]string{}, factSet: map[string]bool{}}
	st.top = "0"
	env := &Env{st: st, vars: map[string]Val{}, pkg: sf.Pkg}
	var binders, sorts, args []string
	var rps []recParam
	defer func() {
		P.mu.Lock()
		if P.recParams == nil {
			P.recParams = map[string][]recParam{}
		}
		P.recParams[sf.Name] = rps
		P.mu.Unlock()
	}()
	for _, p := range sf.Params {
		nm := "v_" + p.Name
		if strings.HasPrefix(p.Type, "row:") {
			et := x.resolveType(sf.Pkg, p.Type[4:])
			srt := "(Array Int " + P.ss.sortOf(et) + ")"
			env.vars[p.Name] = Val{K: KArr, T: nm, Typ: et}
			binders = append(binders, "("+nm+" "+srt+")")
			sorts = append(sorts, srt)
			args = append(args, nm)
			rps = append(rps, recParam{srt, 0})
			continue
		}
		if p.Type == "bytes" || p.Type == "floats" {
			env.vars[p.Name] = Val{K: KArr, T: nm}
			binders = append(binders, "("+nm+" (Array Int Int))")
			sorts = append(sorts, "(Array Int Int)")
			args = append(args, nm)
			rps = append(rps, recParam{"(Array Int Int)", 0})
			continue
		}
		t := x.resolveType(sf.Pkg, p.Type)
		if t == nil {
			env.vars[p.Name] = specInt(nm)
			binders = append(binders, "("+nm+" Int)")
			sorts = append(sorts, "Int")
			rps = append(rps, recParam{"Int", 0})
		} else {
			env.vars[p.Name] = x.mkVal(nm, t)
			binders = append(binders, "("+nm+" "+P.ss.sortOf(t)+")")
			sorts = append(sorts, P.ss.sortOf(t))
			ref := 0
			switch P.ss.kindOf(t) {
			case KPtr:
				ref = 1
			case KSlice:
				ref = 2
			case KStruct, KIface, KFunc, KTuple, KOpaque:
				ref = 3
			}
			rps = append(rps, recParam{P.ss.sortOf(t), ref})
		}
		args = append(args, nm)
	}
	ret := "Int"
	switch sf.RetType {
	case "bool":
		ret = "Bool"
	case "fp64":
		ret = "(_ FloatingPoint 11 53)"
	}
	body := x.evalSpec(sf.Body, env)
	// heaps read by the body become trailing parameters (passed the current heap at each use)
	var heaps []heapParam
	for _, k := range sortedKeys(st.heaps) {
		heaps = append(heaps, heapParam{k, st.hsort[k]})
		binders = append(binders, "("+heapInit(k)+" "+st.hsort[k]+")")
		sorts = append(sorts, st.hsort[k])
		args = append(args, heapInit(k))
	}
	app := "(" + sf.Name + " " + strings.Join(args, " ") + ")"
	if len(args) == 0 {
		app = sf.Name
	}
	decl := fmt.Sprintf("(declare-fun %s (%s) %s)", sf.Name, strings.Join(sorts, " "), ret)
	if sf.Rec {
		// recursive: no quantified axiom (it would unfold without bound); the definition is
		// instantiated at the ground applications occurring in each obligation (see groundUnfold)
		P.mu.Lock()
		if P.recTemplates == nil {
			P.recTemplates = map[string]*recTemplate{}
		}
		P.recTemplates[sf.Name] = &recTemplate{params: args, body: parseSexp(x.termOf(body))}
		P.mu.Unlock()
		return decl, heaps
	}
	ax := fmt.Sprintf("(assert (forall (%s) (! (= %s %s) :pattern (%s))))", strings.Join(binders, " "), app, x.termOf(body), app)
	if isNonlinear(parseSexp(x.termOf(body))) {
		P.mu.Lock()
		if P.nonlinearDef == nil {
			P.nonlinearDef = map[string]bool{}
		}
		P.nonlinearDef[sf.Name] = true
		P.mu.Unlock()
	}
	return decl + "\n" + ax, heaps
}

type recTemplate struct {
	params []string
	body   *sexp
}

// groundUnfold returns the defining equations of recursive spec functions instantiated at
// every ground application (no bound variables) in the given assertions, two levels deep.
func (P *Prog) groundUnfold(asserts []string) []string {
	P.mu.Lock()
	defer P.mu.Unlock()
	if len(P.recTemplates) == 0 {
		return nil
	}
	seen := map[string]bool{}
	var out []string
	var work []*sexp
	var collect func(e *sexp, bound map[string]bool)
	collect = func(e *sexp, bound map[string]bool) {
		if e == nil || e.isAtom() {
			return
		}
		h := e.head()
		if (h == "forall" || h == "exists") && len(e.kids) == 3 {
			nb := map[string]bool{}
			for k := range bound {
				nb[k] = true
			}
			for _, b := range e.kids[1].kids {
				if len(b.kids) > 0 && b.kids[0].isAtom() {
					nb[b.kids[0].atom] = true
				}
			}
			collect(e.kids[2], nb)
			return
		}
		if _, ok := P.recTemplates[h]; ok {
			free := true
			for b := range bound {
				if e.mentions(b) {
					free = false
				}
			}
			if free {
				t := e.String()
				if !seen[t] {
					seen[t] = true
					work = append(work, e)
				}
			}
		}
		for _, k := range e.kids {
			collect(k, bound)
		}
	}
	for _, a := range asserts {
		collect(parseSexp(a), map[string]bool{})
	}
	for round := 0; round < 2; round++ {
		cur := work
		work = nil
		for _, appl := range cur {
			tpl := P.recTemplates[appl.head()]
			if len(appl.kids)-1 != len(tpl.params) {
				continue
			}
			body := tpl.body
			for i, p := range tpl.params {
				body = body.subst(p, appl.kids[i+1])
			}
			body = simplifyArith(body)
			eq := "(= " + appl.String() + " " + body.String() + ")"
			out = append(out, eq)
			if round == 0 {
				collect(body, map[string]bool{})
			}
		}
	}
	return out
}

// simplifyArith rewrites (- (+ y c) c) and (+ (- y c) c) to y (c a literal), bottom-up.
func simplifyArith(e *sexp) *sexp {
	if e == nil || e.isAtom() {
		return e
	}
	n := &sexp{}
	for _, k := range e.kids {
		n.kids = append(n.kids, simplifyArith(k))
	}
	if len(n.kids) == 3 && n.kids[2].isAtom() && isLit(n.kids[2].atom) {
		c := n.kids[2].atom
		in := n.kids[1]
		if !in.isAtom() && len(in.kids) == 3 && in.kids[2].isAtom() && in.kids[2].atom == c {
			if n.head() == "-" && in.head() == "+" || n.head() == "+" && in.head() == "-" {
				return in.kids[1]
			}
		}
		// (- (+ a b c) c) with c last
		if n.head() == "-" && !in.isAtom() && in.head() == "+" && len(in.kids) > 3 {
			last := in.kids[len(in.kids)-1]
			if last.isAtom() && last.atom == c {
				m := &sexp{kids: append([]*sexp(nil), in.kids[:len(in.kids)-1]...)}
				return m
			}
		}
	}
	return n
}

func (P *Prog) opaqueNames() []string {
	P.mu.Lock()
	defer P.mu.Unlock()
	var ns []string
	for n := range P.usedRec {
		ns = append(ns, n)
	}
	sort.Strings(ns)
	return ns
}

// isNonlinear: the term multiplies two non-literal terms or divides by a non-literal.
func isNonlinear(e *sexp) bool {
	if e == nil || e.isAtom() {
		return false
	}
	switch e.head() {
	case "mulS", "fdivS", "fmodS", "tdivS", "tmodS":
		return true
	case "*":
		n := 0
		for _, k := range e.kids[1:] {
			if !(k.isAtom() && isLit(k.atom)) && !isNegLit(k.String()) {
				n++
			}
		}
		if n >= 2 {
			return true
		}
	case "div", "mod", "tdiv", "tmod":
		if len(e.kids) == 3 {
			d := e.kids[2]
			if !(d.isAtom() && isLit(d.atom)) {
				return true
			}
		}
	}
	for _, k := range e.kids {
		if isNonlinear(k) {
			return true
		}
	}
	return false
}

func (P *Prog) isNonlinearDef(name string) bool {
	P.mu.Lock()
	defer P.mu.Unlock()
	return P.nonlinearDef[name]
}
// mentionsTransitively: the goal mentions the opaque function name directly, or through the
// definition of another opaque function it mentions.
func (P *Prog) mentionsTransitively(goal, name string) bool {
	P.mu.Lock()
	defer P.mu.Unlock()
	seen := map[string]bool{}
	var visit func(text string) bool
	visit = func(text string) bool {
		if containsSym(text, name) {
			return true
		}
		for n, def := range P.recCache {
			if seen[n] || !containsSym(text, n) {
				continue
			}
			seen[n] = true
			if visit(def) {
				return true
			}
		}
		return false
	}
	return visit(goal)
}

// frameAxioms: the value of a heap-reading specification function depends only on the objects reachable
// from its reference arguments. For two heap versions Hs, Hs' read by the same function f in one
// obligation, with T the allocator top when the earlier version was read: if the heaps agree on every
// object <= T, then f(a, Hs) = f(a, Hs') for all arguments a whose references are <= T.
// (Reads framing as in Dafny; rests on type safety: a cell of an allocated object never refers to an
// unallocated object.)
func (P *Prog) frameAxioms(asserts []string) []string {
	P.mu.Lock()
	defer P.mu.Unlock()
	if len(P.tupleTop) == 0 {
		return nil
	}
	tuples := map[string][]string{} // f -> distinct heap tuples (text)
	seen := map[string]bool{}
	var collect func(e *sexp)
	collect = func(e *sexp) {
		if e == nil || e.isAtom() {
			return
		}
		if hk, ok := P.recHeapKeys[e.head()]; ok && len(hk) > 0 {
			rp := P.recParams[e.head()]
			if len(e.kids)-1 == len(rp)+len(hk) {
				var hs []string
				for _, k := range e.kids[1+len(rp):] {
					hs = append(hs, k.String())
				}
				key := e.head() + " " + strings.Join(hs, " ")
				if _, known := P.tupleTop[key]; known && !seen[key] {
					seen[key] = true
					tuples[e.head()] = append(tuples[e.head()], strings.Join(hs, " "))
				}
			}
		}
		for _, k := range e.kids {
			collect(k)
		}
	}
	for _, a := range asserts {
		if strings.Contains(a, "(") {
			collect(parseSexp(a))
		}
	}
	topNum := func(t string) int {
		i := strings.LastIndex(t, "_")
		n := 0
		if i >= 0 {
			fmt.Sscanf(t[i+1:], "%d", &n)
		}
		return n
	}
	var fs []string
	for f := range tuples {
		fs = append(fs, f)
	}
	sort.Strings(fs)
	var out []string
	for _, f := range fs {
		ts := tuples[f]
		if len(ts) < 2 {
			continue
		}
		rp := P.recParams[f]
		ok := true
		for _, p := range rp {
			if p.ref == 3 {
				ok = false
			}
		}
		if !ok {
			continue
		}
		ref := 0
		for i := range ts {
			if topNum(P.tupleTop[f+" "+ts[i]]) < topNum(P.tupleTop[f+" "+ts[ref]]) {
				ref = i
			}
		}
		T := P.tupleTop[f+" "+ts[ref]]
		ha := strings.Fields(ts[ref])
		var binders, args, argOK []string
		for i, p := range rp {
			v := fmt.Sprintf("fa_%d", i)
			binders = append(binders, "("+v+" "+p.sort+")")
			args = append(args, v)
			switch p.ref {
			case 1:
				argOK = append(argOK, fmt.Sprintf("(<= %s %s)", v, T), fmt.Sprintf("(=> (< %s 0) (<= (div (- 0 %s) 64) %s))", v, v, T))
			case 2:
				argOK = append(argOK, fmt.Sprintf("(<= (s_arr %s) %s)", v, T))
			}
		}
		for i := range ts {
			if i == ref {
				continue
			}
			hb := strings.Fields(ts[i])
			if len(hb) != len(ha) {
				continue
			}
			var agree []string
			for j := range ha {
				if ha[j] != hb[j] {
					agree = append(agree, fmt.Sprintf("(= (select %s fr_r) (select %s fr_r))", ha[j], hb[j]))
				}
			}
			if len(agree) == 0 {
				continue
			}
			appA := "(" + f + " " + strings.Join(append(append([]string(nil), args...), ha...), " ") + ")"
			appB := "(" + f + " " + strings.Join(append(append([]string(nil), args...), hb...), " ") + ")"
			concl := fmt.Sprintf("(= %s %s)", appA, appB)
			if len(argOK) > 0 {
				concl = fmt.Sprintf("(=> %s %s)", and(argOK...), concl)
			}
			if len(binders) > 0 {
				concl = fmt.Sprintf("(forall (%s) (! %s :pattern (%s) :pattern (%s)))", strings.Join(binders, " "), concl, appA, appB)
			}
			out = append(out, fmt.Sprintf("(=> (forall ((fr_r Int)) (=> (<= fr_r %s) %s)) %s)", T, and(agree...), concl))
		}
	}
	return out
}
