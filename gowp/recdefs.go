package main

// Opaque and recursive specification functions: emitted as uninterpreted functions
// with a defining axiom triggered only by applications of the function ("reveal on demand").

import (
	"fmt"
	"sort"
	"strings"
)

func (P *Prog) recDefs(reveal func(name string) bool) string {
	var names []string
	for n := range P.usedRec {
		names = append(names, n)
	}
	sort.Strings(names)
	if P.recCache == nil {
		P.recCache = map[string]string{}
	}
	var b strings.Builder
	// definitions may use other opaque functions: iterate to a fixpoint
	done := map[string]bool{}
	for changed := true; changed; {
		changed = false
		names = names[:0]
		for n := range P.usedRec {
			names = append(names, n)
		}
		sort.Strings(names)
		for _, n := range names {
			if done[n] {
				continue
			}
			done[n] = true
			changed = true
			if _, ok := P.recCache[n]; !ok {
				P.recCache[n] = P.buildRecDef(P.specs.SpecFns[n])
			}
		}
	}
	// declarations first, then axioms
	var decls, axioms []string
	for _, n := range names {
		parts := strings.SplitN(P.recCache[n], "\n", 2)
		decls = append(decls, parts[0])
		if len(parts) > 1 {
			axioms = append(axioms, parts[1])
		} else {
			axioms = append(axioms, "")
		}
	}
	for _, d := range decls {
		b.WriteString(d)
		b.WriteByte('\n')
	}
	for i, a := range axioms {
		if reveal != nil && !reveal(names[i]) {
			continue
		}
		b.WriteString(a)
		b.WriteByte('\n')
	}
	return b.String()
}

func (P *Prog) buildRecDef(sf *SpecFunc) string {
	x := &Exec{P: P, key: "spec." + sf.Name, usedExt: map[string]bool{}, inlined: map[string]bool{}}
	st := &State{declSet: map[string]bool{}, heaps: map[string]string{}, hsort: map[string]string{}, cells: map[*Cell]Val{},
		written: map[string]bool{}, ghost: map[string]string{}, boolDef: map[string]string{}, factSet: map[string]bool{}}
	st.top = "0"
	env := &Env{st: st, vars: map[string]Val{}, pkg: sf.Pkg}
	var binders, sorts, args []string
	for _, p := range sf.Params {
		nm := "v_" + p.Name
		if p.Type == "bytes" {
			env.vars[p.Name] = Val{K: KArr, T: nm}
			binders = append(binders, "("+nm+" (Array Int Int))")
			sorts = append(sorts, "(Array Int Int)")
			args = append(args, nm)
			continue
		}
		t := x.resolveType(sf.Pkg, p.Type)
		if t == nil {
			env.vars[p.Name] = specInt(nm)
			binders = append(binders, "("+nm+" Int)")
			sorts = append(sorts, "Int")
		} else {
			env.vars[p.Name] = x.mkVal(nm, t)
			binders = append(binders, "("+nm+" "+P.ss.sortOf(t)+")")
			sorts = append(sorts, P.ss.sortOf(t))
		}
		args = append(args, nm)
	}
	ret := "Int"
	switch sf.RetType {
	case "bool":
		ret = "Bool"
	case "fp64":
		ret = "(_ FloatingPoint 11 53)"
	}
	body := x.evalSpec(sf.Body, env)
	if len(st.heaps) > 0 {
		panic(fmt.Sprintf("opaque/rec spec function %s reads the heap; pass values explicitly", sf.Name))
	}
	app := "(" + sf.Name + " " + strings.Join(args, " ") + ")"
	decl := fmt.Sprintf("(declare-fun %s (%s) %s)", sf.Name, strings.Join(sorts, " "), ret)
	ax := fmt.Sprintf("(assert (forall (%s) (! (= %s %s) :pattern (%s))))", strings.Join(binders, " "), app, x.termOf(body), app)
	return decl + "\n" + ax
}

// mentionsTransitively: the goal mentions the opaque function name directly, or through the
// definition of another opaque function it mentions.
func (P *Prog) mentionsTransitively(goal, name string) bool {
	seen := map[string]bool{}
	var visit func(text string) bool
	visit = func(text string) bool {
		if containsSym(text, name) {
			return true
		}
		for n, def := range P.recCache {
			if seen[n] || !containsSym(text, n) {
				continue
			}
			seen[n] = true
			if visit(def) {
				return true
			}
		}
		return false
	}
	return visit(goal)
}
